(* QConcGen.v — a reusable frame for invariants of the thread-level queue model (QConc.v) that look at the ledgers and
   the list, not at the mutex owners, the two atomic counters or the log.

   Given  step t sh lo sh' lo'   what one piece of local code of thread t may do,
          same lo lo'            what the visible actions and the wait loop leave alone in a thread's locals,
          OI sh los              the invariant over the shared state and the locals of all threads (in thread order),
   and the obligations listed as hypotheses below (every transcribed call keeps to `step`; `step` preserves OI; ...),
   OI holds in every configuration reachable under every set of thread programs and every schedule.
   The shared state is arbitrary at every read (interference by other threads = havoc), as in QConcInv / QConcEmpty. *)
From Coq Require Import List Arith NArith ZArith Bool Lia.
From EV Require Import QConc QConcInv.
Import ListNotations.
Local Open Scope nat_scope.

(* the parts of the shared state that visible actions do not touch *)
Definition vis_eq (sh sh' : qshared) : Prop :=
  ql sh' = ql sh /\ fl sh' = fl sh /\ nextid sh' = nextid sh /\ g_enq sh' = g_enq sh /\ g_disp sh' = g_disp sh /\
  g_taken sh' = g_taken sh /\ g_cleared sh' = g_cleared sh /\ g_settled sh' = g_settled sh /\
  g_putbacks sh' = g_putbacks sh /\ g_awake sh' = g_awake sh /\ g_under sh' = g_under sh.

Section GEN.
Variable step : nat -> qshared -> qlocals -> qshared -> qlocals -> Prop.
Variable same : qlocals -> qlocals -> Prop.
Variable OI : qshared -> list qlocals -> Prop.

Section CALC.
Variable t : nat.

Fixpoint woi (i : instr) (Q : qlocals -> Prop) (lo : qlocals) {struct i} : Prop :=
  match i with
  | ILocal _ f => forall sh, step t sh lo (fst (f t sh lo)) (snd (f t sh lo)) /\ Q (snd (f t sh lo))
  | IIf _ c a b =>
      forall sh,
        (c sh lo = true ->
         (fix wl (l : list instr) (Q : qlocals -> Prop) (lo : qlocals) {struct l} : Prop :=
            match l with [] => Q lo | j :: r => woi j (wl r Q) lo end) a Q lo) /\
        (c sh lo = false ->
         (fix wl (l : list instr) (Q : qlocals -> Prop) (lo : qlocals) {struct l} : Prop :=
            match l with [] => Q lo | j :: r => woi j (wl r Q) lo end) b Q lo)
  | IALoad _ => forall v, Q (lo_reg lo v)
  | ICvWait _ => forall b, Q (lo_to lo b)
  | IWaitLoop _ => forall lo', same lo lo' -> Q lo'
  | IAInc EC => Q (lo_held lo (S (lheld lo)))
  | IADec EC => Q (lo_held lo (pred (lheld lo)))
  | _ => Q lo
  end.

Fixpoint wol (l : list instr) (Q : qlocals -> Prop) (lo : qlocals) {struct l} : Prop :=
  match l with [] => Q lo | j :: r => woi j (wol r Q) lo end.

Lemma woi_if r c a b Q lo :
  woi (IIf r c a b) Q lo = (forall sh, (c sh lo = true -> wol a Q lo) /\ (c sh lo = false -> wol b Q lo)).
Proof. reflexivity. Qed.

Definition omono_at (i : instr) : Prop :=
  forall (Q Q' : qlocals -> Prop) lo, (forall x, Q x -> Q' x) -> woi i Q lo -> woi i Q' lo.

Lemma wol_mono_F l : Forall omono_at l ->
  forall (Q Q' : qlocals -> Prop) lo, (forall x, Q x -> Q' x) -> wol l Q lo -> wol l Q' lo.
Proof.
  induction 1 as [|j r Hj _ IH]; intros Q Q' lo HQ H; cbn [wol] in *.
  - apply HQ; exact H.
  - eapply Hj; [|exact H]. intros x Hx. eapply IH; eauto.
Qed.

Lemma woi_mono i : omono_at i.
Proof.
  induction i as [i Hn | r c a b Ha Hb] using instr_ind'.
  - intros Q Q' lo HQ H. destruct i as [m|m|a|a|a| |timed|tt f|r c x y|timed| | | |rr]; try destruct a;
      try (cbn [woi] in *; solve [auto]); try contradiction.
    all: cbn [woi] in *.
    all: try (intros sh; destruct (H sh) as [H1 H2]; split; [exact H1 | apply HQ; exact H2]).
  - intros Q Q' lo HQ H. rewrite woi_if in *. intros sh. destruct (H sh) as [H1 H2]. split; intros Hc.
    + eapply wol_mono_F; eauto.
    + eapply wol_mono_F; eauto.
Qed.

Lemma wol_mono l : forall (Q Q' : qlocals -> Prop) lo, (forall x, Q x -> Q' x) -> wol l Q lo -> wol l Q' lo.
Proof. apply wol_mono_F. apply Forall_forall. intros i _. apply woi_mono. Qed.

Lemma wol_app a : forall b Q lo, wol (a ++ b) Q lo <-> wol a (wol b Q) lo.
Proof.
  induction a as [|j r IH]; intros b Q lo; cbn [wol app]; [tauto|].
  split; intros H; (eapply woi_mono; [|exact H]); intros x Hx; apply IH; exact Hx.
Qed.
End CALC.

Definition TT (lo : qlocals) : Prop := True.

(* ---------- obligations ---------- *)
Hypothesis same_refl : forall l, same l l.
Hypothesis same_reg : forall l v, same l (lo_reg l v).
Hypothesis same_to : forall l b, same l (lo_to l b).
Hypothesis same_held : forall l n, same l (lo_held l n).
Hypothesis calls_ok : forall t c, wol t (code_of c) TT lo0.
Hypothesis wait_ok : forall t timed (Q : qlocals -> Prop) lo, (forall lo', same lo lo' -> Q lo') -> wol t (wait_loop timed) Q lo.
Hypothesis OI_step : forall sh a lo b sh' lo', OI sh (a ++ lo :: b) -> step (length a) sh lo sh' lo' -> OI sh' (a ++ lo' :: b).
Hypothesis OI_eq : forall sh sh' los, vis_eq sh sh' -> OI sh los -> OI sh' los.
Hypothesis OI_same : forall sh a lo lo' b, same lo lo' -> OI sh (a ++ lo :: b) -> OI sh (a ++ lo' :: b).
Hypothesis OI_reset : forall sh a lo b, OI sh (a ++ lo :: b) -> OI sh (a ++ lo0 :: b).
Hypothesis OI_init : forall n, OI sh0 (repeat lo0 n).

(* ---------- soundness ---------- *)
Definition th_ok (t : nat) (th : thread) : Prop :=
  match status th with
  | TFinished => True
  | TParked _ => forall b, wol t (code th) TT (lo_to (lo th) b)
  | _ => wol t (code th) TT (lo th)
  end.

Definition GInv (cfg : config) : Prop :=
  OI (shs cfg) (map lo (ths cfg)) /\ forall t th, nth_error (ths cfg) t = Some th -> th_ok t th.

Lemma vis_eq_refl sh : vis_eq sh sh.
Proof. repeat split. Qed.

Lemma advance_o fuel : forall sh cd cl l (a b : list qlocals),
  OI sh (a ++ l :: b) -> wol (length a) cd TT l ->
  OI (fst (advance fuel (length a) sh (mkTh cd cl l TRun))) (a ++ lo (snd (advance fuel (length a) sh (mkTh cd cl l TRun))) :: b) /\
  th_ok (length a) (snd (advance fuel (length a) sh (mkTh cd cl l TRun))).
Proof.
  induction fuel as [|f IH]; intros sh cd cl l a b HG HW.
  - cbn [advance fst snd lo]. split; [exact HG | exact HW].
  - cbn [advance code calls lo]. destruct cd as [|i rest].
    + destruct cl as [|c r].
      * cbn [fst snd lo]. split; [exact HG|exact I].
      * apply IH; [|apply calls_ok]. eapply OI_reset; exact HG.
    + cbn [wol] in HW. destruct i as [m|m|x|x|x| |timed|tt f0|r c u v|timed| | | |rr];
        try (cbn [fst snd lo]; split; [exact HG | exact HW]).
      * (* ILocal *)
        change (forall sh, step (length a) sh l (fst (f0 (length a) sh l)) (snd (f0 (length a) sh l)) /\
                           wol (length a) rest TT (snd (f0 (length a) sh l))) in HW.
        destruct (HW sh) as [H1 H2]. destruct (f0 (length a) sh l) as [sh1 lo1]. cbn [fst snd] in *.
        apply IH; [eapply OI_step; eauto | exact H2].
      * (* IIf *)
        rewrite woi_if in HW. destruct (HW sh) as [Ha Hb].
        apply IH; [exact HG|]. apply wol_app. destruct (c sh l); auto.
      * (* IWaitLoop *)
        apply IH; [exact HG|]. apply wol_app. apply wait_ok. exact HW.
      * (* IRes *)
        apply IH; [|exact HW]. eapply OI_eq; [|exact HG]. repeat split.
      * (* IDone *)
        apply IH; [|exact HW]. eapply OI_eq; [|exact HG]. repeat split.
Qed.

Lemma nth_map_lo (ths : list thread) t th : nth_error ths t = Some th ->
  exists a b, ths = a ++ th :: b /\ length a = t.
Proof. intros H. destruct (nth_error_split _ _ H) as (a & b & E & L). eauto. Qed.

Lemma set_mid (a : list thread) th b x : set_th (a ++ th :: b) (length a) x = a ++ x :: b.
Proof. induction a as [|y r IH]; cbn [app length set_th]; [reflexivity|]. rewrite IH. reflexivity. Qed.

Lemma nth_mid_o (a : list thread) x y b : forall u, u <> length a -> nth_error (a ++ x :: b) u = nth_error (a ++ y :: b) u.
Proof.
  induction a as [|z r IH]; intros [|u] H; cbn [app nth_error length] in *; try reflexivity.
  - contradiction.
  - apply IH. intros E. apply H. rewrite E. reflexivity.
Qed.

Lemma nth_mid_self (a : list thread) th b : nth_error (a ++ th :: b) (length a) = Some th.
Proof. induction a as [|y r IH]; cbn [app length nth_error]; auto. Qed.

(* the chosen thread has done its visible action (shared state sh1, locals l1); now its local code runs *)
Lemma finish_o fuel t others th0 sh1 cd cl l1 :
  nth_error others t = Some th0 ->
  OI sh1 (map lo (set_th others t (mkTh cd cl l1 TRun))) ->
  wol t cd TT l1 ->
  (forall u thu, u <> t -> nth_error others u = Some thu -> th_ok u thu) ->
  forall s d, GInv (let '(sh2, th2) := advance fuel t sh1 (mkTh cd cl l1 TRun) in mkCfg sh2 (set_th others t th2) s d).
Proof.
  intros HN HG HW HO s d. destruct (nth_map_lo _ _ _ HN) as (a & b & E & La). subst others. subst t.
  rewrite set_mid in HG. rewrite map_app in HG. cbn [map lo] in HG.
  pose proof (advance_o fuel sh1 cd cl l1 (map lo a) (map lo b)) as A. rewrite map_length in A.
  specialize (A HG HW). destruct (advance fuel (length a) sh1 (mkTh cd cl l1 TRun)) as [sh2 th2]. cbn [fst snd] in A.
  destruct A as [A1 A2]. unfold GInv. cbn [shs ths]. rewrite set_mid. split.
  - rewrite map_app. cbn [map]. exact A1.
  - intros u th Hu. destruct (Nat.eq_dec u (length a)) as [->|Hne].
    + rewrite nth_mid_self in Hu. injection Hu as <-. exact A2.
    + apply (HO u th Hne). rewrite <- Hu. apply nth_mid_o. exact Hne.
Qed.

Lemma GInv_irrel sh l s d s' d' : GInv (mkCfg sh l s d) -> GInv (mkCfg sh l s' d').
Proof. intros H; exact H. Qed.

Lemma OI_at sh ths t th l' :
  nth_error ths t = Some th -> same (lo th) l' -> OI sh (map lo ths) ->
  forall cd cl st, OI sh (map lo (set_th ths t (mkTh cd cl l' st))).
Proof.
  intros HN Hs HG cd cl st. destruct (nth_map_lo _ _ _ HN) as (a & b & E & La). subst ths. subst t.
  rewrite set_mid. rewrite map_app in *. cbn [map lo] in *. eapply OI_same; eauto.
Qed.

Lemma woken_list_lo ths :
  map lo (match first_parked ths 0 (fun x => match status x with TParked _ => true | _ => false end) with
          | Some w => match nth_error ths w with
                      | Some wt => set_th ths w (mkTh (code wt) (calls wt) (lo wt) TWoken)
                      | None => ths
                      end
          | None => ths
          end) = map lo ths.
Proof.
  destruct (first_parked ths 0 _) as [w|]; [|reflexivity].
  destruct (nth_error ths w) as [wt|] eqn:HN; [|reflexivity].
  eapply set_th_same_lo; eauto.
Qed.

Lemma nth_set_o : forall (l : list thread) w x0 y u, nth_error l w = Some x0 ->
  nth_error (set_th l w y) u = if Nat.eqb u w then Some y else nth_error l u.
Proof.
  induction l as [|a r IH]; intros [|w] x0 y [|u] H; cbn [nth_error set_th Nat.eqb] in *; try discriminate; try reflexivity.
  apply (IH _ _ _ _ H).
Qed.

Lemma woken_list_ok ths :
  (forall t th, nth_error ths t = Some th -> th_ok t th) ->
  forall t th,
    nth_error (match first_parked ths 0 (fun x => match status x with TParked _ => true | _ => false end) with
               | Some w => match nth_error ths w with
                           | Some wt => set_th ths w (mkTh (code wt) (calls wt) (lo wt) TWoken)
                           | None => ths
                           end
               | None => ths
               end) t = Some th -> th_ok t th.
Proof.
  intros H t th. destruct (first_parked ths 0 _) as [w|] eqn:E; [|apply H].
  destruct (nth_error ths w) as [wt|] eqn:HN; [|apply H].
  rewrite (nth_set_o _ _ _ _ _ HN). destruct (Nat.eqb t w) eqn:Et; [|apply H].
  apply Nat.eqb_eq in Et. subst t. intros X. injection X as <-.
  destruct (first_parked_some _ _ _ _ E) as (x & N & P & _). rewrite Nat.sub_0_r in N. rewrite HN in N. injection N as <-.
  pose proof (H w wt HN) as Hw. unfold th_ok in *. cbn [status code lo]. destruct (status wt); try discriminate.
  specialize (Hw (ltimedout (lo wt))). rewrite lo_to_self in Hw. exact Hw.
Qed.

Lemma perform_o t cfg : GInv cfg -> GInv (perform t cfg).
Proof.
  intros [HG HF]. unfold perform. generalize ADV_FUEL. intros fuel.
  destruct (nth_error (ths cfg) t) as [th|] eqn:HN; [|split; assumption].
  pose proof (HF t th HN) as HW. unfold th_ok in HW.
  assert (Hoth : forall u thu, u <> t -> nth_error (ths cfg) u = Some thu -> th_ok u thu) by (intros; eauto).
  assert (Hlo : forall cd cl st sh', vis_eq (shs cfg) sh' -> forall l', same (lo th) l' ->
                  OI sh' (map lo (set_th (ths cfg) t (mkTh cd cl l' st)))).
  { intros cd cl st sh' Hv l' Hs. eapply OI_eq; [exact Hv|]. eapply OI_at; eauto. }
  destruct (status th) eqn:Est; try (split; assumption).
  - destruct (code th) as [|i rest] eqn:Ec; [split; assumption|].
    cbn [wol] in HW.
    destruct i as [m|m|x|x|x| |timed|tt f|r c u v|timed| | | |rr].
    all: try destruct m; try destruct x.
    all: cbv beta iota zeta; cbn [status].
    all: try (apply (finish_o fuel t (ths cfg) th); auto;
              try (apply Hlo; [repeat split|]; auto)).
    all: try (rewrite Est; destruct th as [cd cl l st]; cbn [code status calls lo] in *; subst cd st;
              apply (finish_o fuel t (ths cfg) _ _ _ _ _ HN); auto; eapply OI_eq; [apply vis_eq_refl|]; eapply OI_at; eauto).

    + (* INotify *)
      assert (HN' : nth_error (match first_parked (ths cfg) 0 (fun x => match status x with TParked _ => true | _ => false end) with
                               | Some w => match nth_error (ths cfg) w with
                                           | Some wt => set_th (ths cfg) w (mkTh (code wt) (calls wt) (lo wt) TWoken)
                                           | None => ths cfg
                                           end
                               | None => ths cfg
                               end) t = Some th).
      { destruct (first_parked (ths cfg) 0 _) as [w|] eqn:E; [|exact HN].
        destruct (nth_error (ths cfg) w) as [wt|] eqn:Nw; [|exact HN].
        rewrite (nth_set_o _ _ _ _ _ Nw). destruct (Nat.eqb t w) eqn:Et; [|exact HN].
        apply Nat.eqb_eq in Et. subst w. rewrite HN in Nw. injection Nw as <-.
        destruct (first_parked_some _ _ _ _ E) as (x & N & P & _). rewrite Nat.sub_0_r in N. rewrite HN in N. injection N as <-.
        rewrite Est in P. discriminate P. }
      apply (finish_o fuel t _ th); auto.
      * destruct (nth_map_lo _ _ _ HN') as (a & b & E & La). rewrite E. rewrite <- La. rewrite set_mid.
        pose proof (woken_list_lo (ths cfg)) as WL. rewrite E in WL. rewrite map_app in *. cbn [map lo] in *.
        eapply OI_eq; [|rewrite WL; exact HG]. repeat split.
      * intros u thu Hu Nu. eapply woken_list_ok; eauto.
    + (* ICvWait: parked, no local code runs *)
      unfold GInv. cbn [shs ths]. split.
      * apply Hlo; [repeat split|apply same_to].
      * intros u x Hu. rewrite (nth_set_o _ _ _ _ _ HN) in Hu. destruct (Nat.eqb u t) eqn:E.
        -- apply Nat.eqb_eq in E. subst u. injection Hu as <-. unfold th_ok. cbn [status code lo]. intros b. rewrite lo_to_idem. apply HW.
        -- apply HF. exact Hu.
  - (* TWoken *)
    apply (finish_o fuel t (ths cfg) th); auto.
    apply Hlo; [repeat split|apply same_refl].
Qed.

Lemma sched_step0_o cfg cfg' : GInv cfg -> sched_step0 cfg = Some cfg' -> GInv cfg'.
Proof.
  intros HE. unfold sched_step0. destruct (dead cfg); [discriminate|].
  destruct (next_from_schedule cfg (sched cfg)) as [pick rest].
  assert (HE1 : GInv (mkCfg (shs cfg) (ths cfg) rest false)) by exact HE.
  set (cfg1 := mkCfg (shs cfg) (ths cfg) rest false) in *.
  destruct (match pick with Some t => Some t | None => lowest_enabled cfg1 end) as [t|].
  - intros E. injection E as <-. apply perform_o. exact HE1.
  - destruct (first_parked (ths cfg1) 0 _) as [w|] eqn:EP.
    + destruct (nth_error (ths cfg1) w) as [wt|] eqn:EN; [|discriminate].
      set (cfg2 := mkCfg _ _ rest (dead cfg1)).
      assert (HE2 : GInv cfg2).
      { destruct HE1 as [HG HF]. subst cfg2. unfold GInv. cbn [shs ths]. split.
        - eapply OI_eq; [|eapply OI_at; [exact EN|apply same_to|exact HG]]. repeat split.
        - intros u x Hu. rewrite (nth_set_o _ _ _ _ _ EN) in Hu. destruct (Nat.eqb u w) eqn:E; [|apply HF; exact Hu].
          apply Nat.eqb_eq in E. subst u. injection Hu as <-.
          pose proof (first_parked_status _ _ _ _ EP EN) as Pk. cbv beta in Pk.
          pose proof (HF w wt EN) as HW. unfold th_ok in *. cbn [status code lo].
          destruct (status wt) as [|timed| |] eqn:Est; try discriminate. apply HW. }
      destruct (th_enabled cfg2 w); intros E; injection E as <-; [apply perform_o|]; exact HE2.
    + destruct (all_finished cfg1); [discriminate|]. intros E. injection E as <-.
      destruct HE1 as [HG HF]. split; [|exact HF]. cbn [shs ths]. eapply OI_eq; [|exact HG]. repeat split.
Qed.

Lemma unnotified_o cfg tok c : GInv cfg -> unnotified cfg tok = Some c -> GInv c.
Proof.
  intros [HG HF] H. unfold unnotified in H.
  destruct (Nat.leb 2000 tok).
  - destruct (nth_error (ths cfg) (tok - 2000)) as [wt|] eqn:EN; [|discriminate].
    destruct (status wt) as [|timed| |] eqn:Est; try discriminate. injection H as <-. unfold GInv. cbn [shs ths]. split.
    + eapply OI_at; [exact EN|apply same_to|exact HG].
    + intros u x Hu. rewrite (nth_set_o _ _ _ _ _ EN) in Hu. destruct (Nat.eqb u (tok - 2000)) eqn:E; [|apply HF; exact Hu].
      apply Nat.eqb_eq in E. subst u. injection Hu as <-.
      pose proof (HF _ wt EN) as HW. unfold th_ok in *. cbn [status code lo]. rewrite Est in HW. apply HW.
  - destruct (Nat.leb 1000 tok); [|discriminate].
    destruct (nth_error (ths cfg) (tok - 1000)) as [wt|] eqn:EN; [|discriminate].
    destruct (status wt) as [|timed| |] eqn:Est; try discriminate. destruct timed; [|discriminate]. injection H as <-. unfold GInv. cbn [shs ths]. split.
    + eapply OI_eq; [|eapply OI_at; [exact EN|apply same_to|exact HG]]. repeat split.
    + intros u x Hu. rewrite (nth_set_o _ _ _ _ _ EN) in Hu. destruct (Nat.eqb u (tok - 1000)) eqn:E; [|apply HF; exact Hu].
      apply Nat.eqb_eq in E. subst u. injection Hu as <-.
      pose proof (HF _ wt EN) as HW. unfold th_ok in *. cbn [status code lo]. rewrite Est in HW. apply HW.
Qed.

Lemma sched_step_o cfg cfg' : GInv cfg -> sched_step cfg = Some cfg' -> GInv cfg'.
Proof.
  intros HE. unfold sched_step. destruct (dead cfg) eqn:Ed; [discriminate|].
  assert (H0 : sched_step0 cfg = Some cfg' -> GInv cfg') by (apply sched_step0_o; exact HE).
  destruct (sched cfg) as [|tok rest]; [exact H0|].
  destruct (unnotified _ tok) as [c|] eqn:EU; [|exact H0].
  intros E. injection E as <-. eapply unnotified_o; [|exact EU]. exact HE.
Qed.

Lemma run_sched_o fuel : forall cfg, GInv cfg -> GInv (run_sched fuel cfg).
Proof.
  induction fuel as [|f IH]; intros cfg HE; cbn [run_sched]; [exact HE|].
  destruct (sched_step cfg) as [c|] eqn:E; [|exact HE]. apply IH. eapply sched_step_o; eauto.
Qed.

Lemma init_o progs schedule : GInv (mkCfg sh0 (start_threads progs) schedule false).
Proof.
  split; cbn [shs ths].
  - unfold start_threads. rewrite map_map. cbn [lo].
    replace (map (fun _ : list qapi => lo0) progs) with (repeat lo0 (length progs)); [apply OI_init|].
    induction progs as [|p r IH]; cbn [length repeat map]; [reflexivity|]. rewrite IH. reflexivity.
  - intros t th Hu. unfold start_threads in Hu. apply nth_error_In in Hu. apply in_map_iff in Hu. destruct Hu as (p & <- & _).
    unfold th_ok. cbn [status code lo wol woi]. exact I.
Qed.

Theorem invariant_every_schedule progs schedule fuel : GInv (reached progs schedule fuel).
Proof. unfold reached. apply run_sched_o. apply init_o. Qed.

End GEN.
