(* Extraction of the executable ScopedRemover model for the correspondence check (tie B).
   ExtrOcamlBasic only; nat stays Peano.  No Extract Constant / Extract Inductive of our own. *)
Require Extraction.
Require Import ExtrOcamlBasic.
From EV Require RemoverModel.
From EV.gen Require GenRemover.
Extraction Language OCaml.
Set Extraction Optimize.
(* the model of the header as tie A reads it now *)
Definition remover_run := RemoverModel.remover_run_case GenRemover.move_assign_resets GenRemover.move_assign_self_guard.
(* the model the C15 theorems are proved for (move assignment releases first); oracle when the proof step fails *)
Definition remover_spec_run := RemoverModel.remover_run_case true GenRemover.move_assign_self_guard.
(* the header as it was before the repair of P6 *)
Definition remover_legacy_run := RemoverModel.remover_run_case false false.
Extraction "../ocaml/gen/remover_model.ml" remover_run remover_spec_run remover_legacy_run.
