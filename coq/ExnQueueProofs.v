(* ExnQueueProofs.v — C09 part 2, proofs about the interpreter of ExnQueue.v, for ALL programs
   (induction over fuel, command lists, listener lists and the local list of a processing call):
     A  the in-dispatch counter after any command list, completed or thrown, is the one before;
        between the throw statement and the catch only that counter and the ledger change;
     B  ledger: payloads alive minus events queued is the same before and after — a processing call
        destroys exactly what it took out and did not put back, never a queued event;
     C  every XThrew t in the outermost trace is immediately followed by XCaught t;
     E  emptyQueue() / doCanProcess() computed from the post-state are those of the pending list;
     F  the state after a caught exception is an ordinary state: later programs run from it.
   The interpreter's two deviation switches are section variables; the theorems are then
   instantiated with what tools/leaves/exn.py read off the headers (code_no_catch,
   code_guard_raii), so a header that loses CounterGuard or gains a swallowing catch breaks them. *)
From Coq Require Import List Arith NArith ZArith Bool Lia Sorted.
From EV Require Import ExnQueue.
From EV.gen Require GenQ GenExn.
Import ListNotations.
Local Open Scope nat_scope.

(* s1 differs from s0 in the counter and the ledger only *)
Definition unw (s0 s1 : xstate) : Prop :=
  xpend s1 = xpend s0 /\ xlsts s1 = xlsts s0 /\ xfilters s1 = xfilters s0 /\ xnexth s1 = xnexth s0 /\
  xnexts s1 = xnexts s0 /\ xhregs s1 = xhregs s0 /\ xfregs s1 = xfregs s0 /\ xacts s1 = xacts s0 /\
  xfacts s1 = xfacts s0 /\ xpacts s1 = xpacts s0 /\ xtrace s1 = xtrace s0.

Lemma unw_refl s : unw s s.
Proof. repeat split. Qed.
Lemma unw_live s0 s1 v : unw s0 s1 -> unw s0 (xu_live s1 v).
Proof. unfold unw. simpl. tauto. Qed.
Lemma unw_count s0 s1 v : unw s0 s1 -> unw s0 (xu_count s1 v).
Proof. unfold unw. simpl. tauto. Qed.

Definition zlen {A} (l : list A) : Z := Z.of_nat (length l).

Section Proofs.
  Variable no_catch : bool.
  Variable guard_raii : nat -> bool.
  Hypothesis Hraii : forall w, guard_raii w = true.
  Variable behav : nat -> nat -> list xcmd.
  Variable fbehav : nat -> nat -> list xcmd * bool.
  Variable pbehav : nat -> nat -> list xcmd * bool.

  Local Notation call_all := (x_call_all behav fbehav).
  Local Notation dispatch := (x_dispatch no_catch behav fbehav).
  Local Notation eval_pred := (x_eval_pred pbehav).
  Local Notation ploop := (x_ploop no_catch behav fbehav pbehav).
  Local Notation processing := (x_processing no_catch guard_raii behav fbehav pbehav).
  Local Notation step := (x_step no_catch guard_raii behav fbehav pbehav).
  Local Notation seq := (x_seq no_catch guard_raii behav fbehav pbehav).
  Local Notation run := (x_run no_catch guard_raii behav fbehav pbehav).
  Local Notation main := (x_main no_catch guard_raii behav fbehav pbehav).

  (* ================================================================ A: counter and unwinding *)

  Definition okA (st : xstate) (r : xres) : Prop :=
    match r with
    | XOk st' => xcount st' = xcount st
    | XExn _ s0 s1 => xcount s1 = xcount st /\ unw s0 s1
    | XErr => True
    end.

  Lemma okA_pre st st1 r : xcount st1 = xcount st -> okA st1 r -> okA st r.
  Proof. intros E H. destruct r; simpl in *; [congruence| |exact I]. destruct H; split; [congruence|assumption]. Qed.

  Section LoopsA.
    Variable rec : xstate -> list xcmd -> xres.
    Hypothesis HA : forall st cs, okA st (rec st cs).

    Lemma call_all_A flt k a : forall todo st, okA st (fst (call_all rec flt st k todo a)).
    Proof.
      induction todo as [|[h c] rest IH]; intros st; simpl; [reflexivity|].
      destruct (xhas h (if flt then xfilters st else xlst st k)); [|apply IH].
      destruct flt.
      - destruct (fbehav c _) as [body verdict] eqn:Eb.
        match goal with |- context [rec ?S body] => specialize (HA S body); destruct (rec S body) as [s3|t s0 s1|] end; simpl in *.
        + destruct verdict; [eapply okA_pre; [|apply IH]; exact HA|simpl; exact HA].
        + exact HA.
        + exact I.
      - match goal with |- context [rec ?S ?B] => specialize (HA S B); destruct (rec S B) as [s3|t s0 s1|] end; simpl in *.
        + eapply okA_pre; [|apply IH]; exact HA.
        + exact HA.
        + exact I.
    Qed.

    Lemma dispatch_A st k a : okA st (dispatch rec st k a).
    Proof.
      unfold x_dispatch.
      assert (F := call_all_A true k a (xfilters st) st).
      destruct (call_all rec true st k (xfilters st) a) as [r b]. simpl in F.
      destruct r as [st1|t s0 s1|].
      - destruct b.
        + assert (L := call_all_A false k a (xlst st1 k) st1).
          destruct (call_all rec false st1 k (xlst st1 k) a) as [r2 b2]. simpl in *.
          destruct r2 as [st2|t s0 s1|]; simpl in *; [congruence| |exact I].
          destruct L as [L1 L2]. destruct no_catch; simpl; [split; [congruence|exact L2]|congruence].
        + simpl. exact F.
      - simpl in F. destruct F as [F1 F2]. destruct no_catch; simpl; [split; assumption|exact F1].
      - exact I.
    Qed.

    Lemma eval_pred_A st p e : okA st (fst (eval_pred rec st p e)).
    Proof.
      unfold x_eval_pred. destruct (pbehav p _) as [body verdict]. simpl.
      match goal with |- context [rec ?S body] => specialize (HA S body); destruct (rec S body) end; simpl in *; assumption.
    Qed.

    Lemma ploop_A mode p : forall temp st kept idle, okA st (fst (fst (ploop rec mode p st temp kept idle))).
    Proof.
      induction temp as [|e rest IH]; intros st kept idle; simpl; [reflexivity|].
      assert (GO : forall st1, xcount st1 = xcount st ->
                okA st (fst (fst (match dispatch rec st1 (xkey e) (xarg e) with
                                  | XOk st2 => ploop rec mode p (xu_live st2 (xlive st2 - 1)%Z) rest kept (S idle)
                                  | XExn t s0 s1 => (XExn t s0 (x_discard s1 (S (length rest + length kept))), [], idle)
                                  | XErr => (XErr, [], idle)
                                  end)))).
      { intros st1 E1. assert (D := dispatch_A st1 (xkey e) (xarg e)).
        destruct (dispatch rec st1 (xkey e) (xarg e)) as [st2|t s0 s1|]; simpl in *.
        - eapply okA_pre; [|apply IH]. simpl. congruence.
        - destruct D as [D1 D2]. split; [congruence|apply unw_live; exact D2].
        - exact I. }
      destruct mode as [|m]; [apply GO; reflexivity|].
      assert (P := eval_pred_A st p e). destruct (eval_pred rec st p e) as [r v]. simpl in P.
      destruct r as [st1|t s0 s1|]; simpl in *.
      - destruct m as [|m']; simpl; destruct v; try (apply GO; exact P).
        + eapply okA_pre; [exact P|apply IH].
        + simpl. exact P.
      - destruct P as [P1 P2]. split; [exact P1|apply unw_live; exact P2].
      - exact I.
    Qed.

    Lemma processing_A which mode p st temp remaining : okA st (processing rec which mode p st temp remaining).
    Proof.
      unfold x_processing.
      assert (L := ploop_A mode p temp (xu_pend (xu_count st (S (xcount st))) remaining) [] 0).
      destruct (ploop rec mode p _ temp [] 0) as [[r kept] idle]. simpl in L.
      destruct r as [st2|t s0 s1|]; simpl in *.
      - rewrite L. reflexivity.
      - destruct L as [L1 L2]. rewrite Hraii. simpl. split; [rewrite L1; reflexivity|apply unw_count; exact L2].
      - exact I.
    Qed.

    Lemma step_A st c : okA st (step rec st c).
    Proof.
      destruct c; simpl; try reflexivity.
      - destruct (xlookup hb (xhregs st)) as [[k' b]|]; [|reflexivity].
        destruct (Nat.eqb k' k); [|exact I]. destruct (xhas b (xlst st k)); reflexivity.
      - destruct (xlookup h (xhregs st)) as [[k' b]|]; [|reflexivity].
        destruct (Nat.eqb k' k); [|exact I]. destruct (xhas b (xlst st k)); reflexivity.
      - destruct (xlookup h (xfregs st)) as [b|]; [|reflexivity]. destruct (xhas b (xfilters st)); reflexivity.
      - apply dispatch_A.
      - destruct (xpend st); [reflexivity|apply processing_A].
      - destruct (xpend st); [reflexivity|apply processing_A].
      - destruct (xpend st); [reflexivity|apply processing_A].
      - destruct (xpend st); [reflexivity|apply processing_A].
      - split; [reflexivity|apply unw_refl].
    Qed.

    Lemma seq_A : forall cs st, okA st (seq rec st cs).
    Proof.
      induction cs as [|c r IH]; intros st; simpl; [reflexivity|].
      assert (S := step_A st c). destruct (step rec st c) as [st1|t s0 s1|]; simpl in *; [|exact S|exact I].
      eapply okA_pre; [exact S|apply IH].
    Qed.
  End LoopsA.

  Theorem run_A : forall fuel st cs, okA st (run fuel st cs).
  Proof. induction fuel as [|f IH]; intros st cs; simpl; [exact I|]. apply seq_A. exact IH. Qed.

  (* ================================================================ B: ledger *)

  Definition held (st : xstate) : Z := (xlive st - zlen (xpend st))%Z.

  Definition okB (st : xstate) (r : xres) : Prop :=
    match r with
    | XOk st' => held st' = held st
    | XExn _ _ s1 => held s1 = held st
    | XErr => True
    end.

  Lemma okB_pre st st1 r : held st1 = held st -> okB st1 r -> okB st r.
  Proof. intros E H. destruct r; simpl in *; congruence. Qed.

  Ltac zl := unfold held, zlen, x_discard in *; cbn -[Z.of_nat] in *; rewrite ?app_length, ?rev_length in *; cbn -[Z.of_nat] in *;
             rewrite ?Zpos_P_of_succ_nat in *; lia.

  Section LoopsB.
    Variable rec : xstate -> list xcmd -> xres.
    Hypothesis HB : forall st cs, okB st (rec st cs).

    Lemma call_all_B flt k a : forall todo st, okB st (fst (call_all rec flt st k todo a)).
    Proof.
      induction todo as [|[h c] rest IH]; intros st; simpl; [reflexivity|].
      destruct (xhas h (if flt then xfilters st else xlst st k)); [|apply IH].
      destruct flt.
      - destruct (fbehav c _) as [body verdict] eqn:Eb.
        match goal with |- context [rec ?S body] => specialize (HB S body); destruct (rec S body) as [s3|t s0 s1|] end; simpl in *.
        + destruct verdict; [eapply okB_pre; [|apply IH]; exact HB|simpl; exact HB].
        + exact HB.
        + exact I.
      - match goal with |- context [rec ?S ?B] => specialize (HB S B); destruct (rec S B) as [s3|t s0 s1|] end; simpl in *.
        + eapply okB_pre; [|apply IH]; exact HB.
        + exact HB.
        + exact I.
    Qed.

    Lemma dispatch_B st k a : okB st (dispatch rec st k a).
    Proof.
      unfold x_dispatch.
      assert (F := call_all_B true k a (xfilters st) st).
      destruct (call_all rec true st k (xfilters st) a) as [r b]. simpl in F.
      destruct r as [st1|t s0 s1|].
      - destruct b.
        + assert (L := call_all_B false k a (xlst st1 k) st1).
          destruct (call_all rec false st1 k (xlst st1 k) a) as [r2 b2]. simpl in *.
          destruct r2 as [st2|t s0 s1|]; simpl in *; [congruence| |exact I].
          destruct no_catch; simpl; congruence.
        + simpl. exact F.
      - simpl in F. destruct no_catch; simpl; exact F.
      - exact I.
    Qed.

    Lemma eval_pred_B st p e : okB st (fst (eval_pred rec st p e)).
    Proof.
      unfold x_eval_pred. destruct (pbehav p _) as [body verdict]. simpl.
      match goal with |- context [rec ?S body] => specialize (HB S body); destruct (rec S body) end; simpl in *; assumption.
    Qed.

    Definition okBloop (st : xstate) (temp kept : list xevent) (r : xres * list xevent * nat) : Prop :=
      match r with
      | (XOk st', out, _) => (held st' - zlen out = held st - zlen temp - zlen kept)%Z
      | (XExn _ _ s1, _, _) => (held s1 = held st - zlen temp - zlen kept)%Z
      | (XErr, _, _) => True
      end.

    Lemma ploop_B mode p : forall temp st kept idle, okBloop st temp kept (ploop rec mode p st temp kept idle).
    Proof.
      induction temp as [|e rest IH]; intros st kept idle; simpl; [(unfold okBloop in *; zl)|].
      assert (GO : forall st1, held st1 = held st ->
                okBloop st (e :: rest) kept
                  (match dispatch rec st1 (xkey e) (xarg e) with
                   | XOk st2 => ploop rec mode p (xu_live st2 (xlive st2 - 1)%Z) rest kept (S idle)
                   | XExn t s0 s1 => (XExn t s0 (x_discard s1 (S (length rest + length kept))), [], idle)
                   | XErr => (XErr, [], idle)
                   end)).
      { intros st1 E1. assert (D := dispatch_B st1 (xkey e) (xarg e)).
        destruct (dispatch rec st1 (xkey e) (xarg e)) as [st2|t s0 s1|]; simpl in *.
        - specialize (IH (xu_live st2 (xlive st2 - 1)%Z) kept (S idle)).
          destruct (ploop rec mode p (xu_live st2 (xlive st2 - 1)%Z) rest kept (S idle)) as [[r out] i]. unfold okBloop in *.
          destruct r; try exact I; (unfold okBloop in *; zl).
        - (unfold okBloop in *; zl).
        - exact I. }
      destruct mode as [|m]; [apply GO; reflexivity|].
      assert (P := eval_pred_B st p e). destruct (eval_pred rec st p e) as [r v]. simpl in P.
      destruct r as [st1|t s0 s1|]; simpl in *.
      - destruct m as [|m']; simpl; destruct v; try (apply GO; exact P).
        + specialize (IH st1 (e :: kept) idle).
          destruct (ploop rec 1 p st1 rest (e :: kept) idle) as [[r out] i]. unfold okBloop in *. destruct r; try exact I; (unfold okBloop in *; zl).
        + (unfold okBloop in *; zl).
      - (unfold okBloop in *; zl).
      - exact I.
    Qed.

    Lemma processing_B which mode p st temp remaining :
      zlen (xpend st) = (zlen temp + zlen remaining)%Z -> okB st (processing rec which mode p st temp remaining).
    Proof.
      intros Hlen. unfold x_processing.
      assert (L := ploop_B mode p temp (xu_pend (xu_count st (S (xcount st))) remaining) [] 0).
      destruct (ploop rec mode p _ temp [] 0) as [[r kept] idle]. unfold okBloop in L.
      destruct r as [st2|t s0 s1|]; simpl in *.
      - zl.
      - rewrite Hraii. zl.
      - exact I.
    Qed.

    Lemma step_B st c : okB st (step rec st c).
    Proof.
      destruct c; simpl; try reflexivity.
      - destruct (xlookup hb (xhregs st)) as [[k' b]|]; [|reflexivity].
        destruct (Nat.eqb k' k); [|exact I]. destruct (xhas b (xlst st k)); reflexivity.
      - destruct (xlookup h (xhregs st)) as [[k' b]|]; [|reflexivity].
        destruct (Nat.eqb k' k); [|exact I]. destruct (xhas b (xlst st k)); reflexivity.
      - destruct (xlookup h (xfregs st)) as [b|]; [|reflexivity]. destruct (xhas b (xfilters st)); reflexivity.
      - apply dispatch_B.
      - zl.
      - destruct (xpend st) eqn:E; [reflexivity|apply processing_B; rewrite E; zl].
      - destruct (xpend st) eqn:E; [reflexivity|apply processing_B; rewrite E; zl].
      - destruct (xpend st) eqn:E; [reflexivity|apply processing_B; rewrite E; zl].
      - destruct (xpend st) eqn:E; [reflexivity|apply processing_B; rewrite E; zl].
    Qed.

    Lemma seq_B : forall cs st, okB st (seq rec st cs).
    Proof.
      induction cs as [|c r IH]; intros st; simpl; [reflexivity|].
      assert (S := step_B st c). destruct (step rec st c) as [st1|t s0 s1|]; simpl in *; [|exact S|exact I].
      eapply okB_pre; [exact S|apply IH].
    Qed.
  End LoopsB.

  Theorem run_B : forall fuel st cs, okB st (run fuel st cs).
  Proof. induction fuel as [|f IH]; intros st cs; simpl; [exact I|]. apply seq_B. exact IH. Qed.

  (* ================================================================ C: a throw reaches the outermost caller at once *)

  (* traces are kept latest first *)
  Fixpoint goodtr (l : list xev) : Prop :=
    match l with
    | [] => True
    | e :: r => match r with XThrew t :: _ => e = XCaught t | _ => True end /\ goodtr r
    end.
  Definition closedtr (l : list xev) : Prop := match l with XThrew _ :: _ => False | _ => True end.
  Definition gc (l : list xev) : Prop := goodtr l /\ closedtr l.
  Definition not_threw (e : xev) : Prop := match e with XThrew _ => False | _ => True end.

  Lemma gc_log l e : gc l -> not_threw e -> gc (e :: l).
  Proof.
    intros [G C] N. split; [|destruct e; simpl in *; tauto].
    simpl. split; [|exact G]. destruct l as [|x r]; [exact I|]. destruct x; try exact I. simpl in C. contradiction.
  Qed.

  Lemma gc_threw l t : gc l -> goodtr (XThrew t :: l).
  Proof. intros [G C]. simpl. split; [|exact G]. destruct l as [|x r]; [exact I|]. destruct x; try exact I. simpl in C. contradiction. Qed.

  Lemma gc_caught l t : gc l -> gc (XCaught t :: XThrew t :: l).
  Proof. intros H. split; [|exact I]. simpl. split; [reflexivity|]. apply (gc_threw l t H). Qed.

  Section TraceC.
    Hypothesis Hnc : no_catch = true.

    Definition okC (st : xstate) (r : xres) : Prop :=
      gc (xtrace st) ->
      match r with
      | XOk st' => gc (xtrace st')
      | XExn t _ s1 => exists tr, xtrace s1 = XThrew t :: tr /\ gc tr
      | XErr => True
      end.

    Lemma okC_pre st st1 r : (gc (xtrace st) -> gc (xtrace st1)) -> okC st1 r -> okC st r.
    Proof. intros E H G. apply H. apply E. exact G. Qed.

    Section LoopsC.
      Variable rec : xstate -> list xcmd -> xres.
      Hypothesis HC : forall st cs, okC st (rec st cs).

      Lemma call_all_C flt k a : forall todo st, okC st (fst (call_all rec flt st k todo a)).
      Proof.
        induction todo as [|[h c] rest IH]; intros st; simpl; [intros G; exact G|].
        destruct (xhas h (if flt then xfilters st else xlst st k)); [|apply IH].
        destruct flt.
        - destruct (fbehav c _) as [body verdict] eqn:Eb.
          match goal with |- context [rec ?S body] => specialize (HC S body); destruct (rec S body) as [s3|t s0 s1|] end; simpl in *.
          + destruct verdict.
            * intros G. apply IH. apply HC. simpl. apply gc_log; [exact G|exact I].
            * simpl. intros G. apply HC. simpl. apply gc_log; [exact G|exact I].
          + intros G. apply HC. simpl. apply gc_log; [exact G|exact I].
          + intros _. exact I.
        - match goal with |- context [rec ?S ?B] => specialize (HC S B); destruct (rec S B) as [s3|t s0 s1|] end; simpl in *.
          + intros G. apply IH. apply HC. simpl. apply gc_log; [exact G|exact I].
          + intros G. apply HC. simpl. apply gc_log; [exact G|exact I].
          + intros _. exact I.
      Qed.

      Lemma dispatch_C st k a : okC st (dispatch rec st k a).
      Proof.
        unfold x_dispatch. rewrite Hnc.
        assert (F := call_all_C true k a (xfilters st) st).
        destruct (call_all rec true st k (xfilters st) a) as [r b]. simpl in F.
        destruct r as [st1|t s0 s1|].
        - destruct b.
          + assert (L := call_all_C false k a (xlst st1 k) st1).
            destruct (call_all rec false st1 k (xlst st1 k) a) as [r2 b2]. simpl in *.
            destruct r2 as [st2|t s0 s1|]; simpl in *; intros G; try exact I; apply L; apply F; exact G.
          + simpl. exact F.
        - simpl. exact F.
        - intros _. exact I.
      Qed.

      Lemma eval_pred_C st p e : okC st (fst (eval_pred rec st p e)).
      Proof.
        unfold x_eval_pred. destruct (pbehav p _) as [body verdict]. simpl.
        match goal with |- context [rec ?S body] => specialize (HC S body); destruct (rec S body) end; simpl in *;
          intros G; try exact I; apply HC; simpl; apply gc_log; [exact G|exact I | exact G|exact I].
      Qed.

      Lemma ploop_C mode p : forall temp st kept idle, okC st (fst (fst (ploop rec mode p st temp kept idle))).
      Proof.
        induction temp as [|e rest IH]; intros st kept idle; simpl; [intros G; exact G|].
        assert (GO : forall st1, (gc (xtrace st) -> gc (xtrace st1)) ->
                  okC st (fst (fst (match dispatch rec st1 (xkey e) (xarg e) with
                                    | XOk st2 => ploop rec mode p (xu_live st2 (xlive st2 - 1)%Z) rest kept (S idle)
                                    | XExn t s0 s1 => (XExn t s0 (x_discard s1 (S (length rest + length kept))), [], idle)
                                    | XErr => (XErr, [], idle)
                                    end)))).
        { intros st1 E1. assert (D := dispatch_C st1 (xkey e) (xarg e)).
          destruct (dispatch rec st1 (xkey e) (xarg e)) as [st2|t s0 s1|]; simpl in *.
          - intros G. apply IH. simpl. apply D. apply E1. exact G.
          - intros G. apply D. apply E1. exact G.
          - intros _. exact I. }
        destruct mode as [|m]; [apply GO; intros G; exact G|].
        assert (P := eval_pred_C st p e). destruct (eval_pred rec st p e) as [r v]. simpl in P.
        destruct r as [st1|t s0 s1|]; simpl in *.
        - destruct m as [|m']; simpl; destruct v; try (apply GO; exact P).
          + intros G. apply IH. apply P. exact G.
          + simpl. exact P.
        - exact P.
        - intros _. exact I.
      Qed.

      Lemma processing_C which mode p st temp remaining : okC st (processing rec which mode p st temp remaining).
      Proof.
        unfold x_processing.
        assert (L := ploop_C mode p temp (xu_pend (xu_count st (S (xcount st))) remaining) [] 0).
        destruct (ploop rec mode p _ temp [] 0) as [[r kept] idle]. simpl in L.
        destruct r as [st2|t s0 s1|]; simpl in *.
        - intros G. apply gc_log; [apply L; exact G|exact I].
        - intros G. destruct (L G) as [tr [E1 E2]]. exists tr. split; [|exact E2]. destruct (guard_raii which); simpl; exact E1.
        - intros _. exact I.
      Qed.

      Lemma step_C st c : okC st (step rec st c).
      Proof.
        destruct c; simpl; try (intros G; simpl; first [exact G | apply gc_log; [exact G|exact I]]).
        - destruct (xlookup hb (xhregs st)) as [[k' b]|]; [|intros G; exact G].
          destruct (Nat.eqb k' k); [|intros _; exact I]. destruct (xhas b (xlst st k)); intros G; exact G.
        - destruct (xlookup h (xhregs st)) as [[k' b]|]; [|intros G; apply gc_log; [exact G|exact I]].
          destruct (Nat.eqb k' k); [|intros _; exact I]. destruct (xhas b (xlst st k)); intros G; apply gc_log; try exact G; exact I.
        - destruct (xlookup h (xfregs st)) as [b|]; [|intros G; apply gc_log; [exact G|exact I]].
          destruct (xhas b (xfilters st)); intros G; apply gc_log; try exact G; exact I.
        - apply dispatch_C.
        - destruct (xpend st); [intros G; apply gc_log; [exact G|exact I]|apply processing_C].
        - destruct (xpend st); [intros G; apply gc_log; [exact G|exact I]|apply processing_C].
        - destruct (xpend st); [intros G; apply gc_log; [exact G|exact I]|apply processing_C].
        - destruct (xpend st); [intros G; apply gc_log; [exact G|exact I]|apply processing_C].
        - intros G. exists (xtrace st). split; [reflexivity|exact G].
      Qed.

      Lemma seq_C : forall cs st, okC st (seq rec st cs).
      Proof.
        induction cs as [|c r IH]; intros st; simpl; [intros G; exact G|].
        assert (S := step_C st c). destruct (step rec st c) as [st1|t s0 s1|]; simpl in *; [|exact S|intros _; exact I].
        intros G. apply IH. apply S. exact G.
      Qed.
    End LoopsC.

    Theorem run_C : forall fuel st cs, okC st (run fuel st cs).
    Proof. induction fuel as [|f IH]; intros st cs; simpl; [intros _; exact I|]. apply seq_C. exact IH. Qed.

    (* the outermost trace: every throw is followed at once by the catch of the same tag *)
    Theorem main_C fuel : forall cs st st', gc (xtrace st) -> main fuel st cs = Some st' -> gc (xtrace st').
    Proof.
      induction cs as [|c r IH]; intros st st' G H; simpl in H; [inversion H; subst; exact G|].
      assert (R := run_C fuel st [c] G). destruct (run fuel st [c]) as [st1|t s0 s1|]; [| |discriminate].
      - apply (IH st1 st' R H).
      - destruct R as [tr [E1 E2]]. apply (IH _ st' ) in H; [exact H|]. simpl. rewrite E1. apply gc_caught. exact E2.
    Qed.
  End TraceC.


  (* ================================================================ D: events never taken stay queued, in order *)

  (* every event carries the number it got at enqueue; the queue is always in that order, and its events
     lie between any lower bound that held before and the number the next enqueue will hand out *)
  Definition seqs (l : list xevent) : list nat := map xseq l.
  Definition inb (lo hi : nat) (l : list xevent) : Prop := Forall (fun e => lo <= xseq e /\ xseq e < hi) l.
  Definition SB (lo : nat) (st : xstate) : Prop :=
    StronglySorted lt (seqs (xpend st)) /\ inb lo (xnexts st) (xpend st).

  Definition okD (st : xstate) (r : xres) : Prop :=
    forall lo, lo <= xnexts st -> SB lo st ->
    match r with
    | XOk st' => SB lo st' /\ xnexts st <= xnexts st'
    | XExn _ _ s1 => SB lo s1 /\ xnexts st <= xnexts s1
    | XErr => True
    end.

  Lemma okD_pre st st1 r :
    (forall lo, lo <= xnexts st -> SB lo st -> SB lo st1 /\ xnexts st <= xnexts st1) -> okD st1 r -> okD st r.
  Proof.
    intros E H lo L S0. destruct (E lo L S0) as [S1 N1]. specialize (H lo (Nat.le_trans _ _ _ L N1) S1).
    destruct r; try exact I; destruct H as [H1 H2]; split; try exact H1; lia.
  Qed.

  Lemma okD_same st st1 r : xpend st1 = xpend st -> xnexts st1 = xnexts st -> okD st1 r -> okD st r.
  Proof.
    intros Ep En H. apply (okD_pre st st1 r); [|exact H]. intros lo L S0. unfold SB in *. rewrite Ep, En. split; [exact S0|lia].
  Qed.

  Lemma ss_app_inv (a b : list nat) : StronglySorted lt (a ++ b) ->
    StronglySorted lt a /\ StronglySorted lt b /\ (forall x y, In x a -> In y b -> x < y).
  Proof.
    induction a as [|h t IH]; simpl; intros H.
    - split; [constructor|]. split; [exact H|]. intros x y [].
    - inversion H as [|? ? Ht Hh]; subst. destruct (IH Ht) as [A [B C]].
      split; [constructor; [exact A|]|]. { rewrite Forall_forall in *. intros x Hx. apply Hh. apply in_or_app. left; exact Hx. }
      split; [exact B|]. intros x y [Hx|Hx] Hy; [subst; rewrite Forall_forall in Hh; apply Hh; apply in_or_app; right; exact Hy|apply C; assumption].
  Qed.

  Lemma ss_app (a b : list nat) : StronglySorted lt a -> StronglySorted lt b -> (forall x y, In x a -> In y b -> x < y) ->
    StronglySorted lt (a ++ b).
  Proof.
    induction a as [|h t IH]; simpl; intros A B C; [exact B|].
    inversion A as [|? ? At Ah]; subst. constructor.
    - apply IH; [exact At|exact B|]. intros x y Hx Hy. apply C; [right; exact Hx|exact Hy].
    - rewrite Forall_forall in *. intros x Hx. apply in_app_or in Hx. destruct Hx as [Hx|Hx]; [apply Ah; exact Hx|apply C; [left; reflexivity|exact Hx]].
  Qed.

  Lemma ss_drop_middle (a : list nat) x b : StronglySorted lt (a ++ x :: b) -> StronglySorted lt (a ++ b).
  Proof.
    intros H. destruct (ss_app_inv _ _ H) as [A [B C]]. inversion B as [|? ? Bt Bh]; subst.
    apply ss_app; [exact A|exact Bt|]. intros u v Hu Hv. apply C; [exact Hu|right; exact Hv].
  Qed.

  Lemma inb_app lo hi a b : inb lo hi (a ++ b) <-> inb lo hi a /\ inb lo hi b.
  Proof. unfold inb. apply Forall_app. Qed.

  Lemma inb_weaken lo hi lo' hi' l : lo' <= lo -> hi <= hi' -> inb lo hi l -> inb lo' hi' l.
  Proof. intros L H. unfold inb. apply Forall_impl. intros e [A B]. split; lia. Qed.

  Lemma SB_weaken lo lo' st : lo' <= lo -> SB lo st -> SB lo' st.
  Proof. intros L [A B]. split; [exact A|]. eapply inb_weaken; [exact L|apply Nat.le_refl|exact B]. Qed.

  Lemma in_seqs e l : In e l -> In (xseq e) (seqs l).
  Proof. intros H. unfold seqs. apply in_map. exact H. Qed.

  Section LoopsD.
    Variable rec : xstate -> list xcmd -> xres.
    Hypothesis HD : forall st cs, okD st (rec st cs).

    Lemma call_all_D flt k a : forall todo st, okD st (fst (call_all rec flt st k todo a)).
    Proof.
      induction todo as [|[h c] rest IH]; intros st; simpl; [intros lo L S0; split; [exact S0|lia]|].
      destruct (xhas h (if flt then xfilters st else xlst st k)); [|apply IH].
      destruct flt.
      - destruct (fbehav c _) as [body verdict] eqn:Eb.
        match goal with |- context [rec ?S body] => specialize (HD S body); destruct (rec S body) as [s3|t s0 s1|] eqn:Er end; simpl in *.
        + destruct verdict; simpl.
          * eapply okD_same; [| |eapply okD_pre; [|apply IH]]; try reflexivity. intros lo L S0. apply (HD lo L S0).
          * eapply okD_same; [| |exact HD]; reflexivity.
        + eapply okD_same; [| |exact HD]; reflexivity.
        + intros lo L S0. exact I.
      - match goal with |- context [rec ?S ?B] => specialize (HD S B); destruct (rec S B) as [s3|t s0 s1|] eqn:Er end; simpl in *.
        + eapply okD_same; [| |eapply okD_pre; [|apply IH]]; try reflexivity. intros lo L S0. apply (HD lo L S0).
        + eapply okD_same; [| |exact HD]; reflexivity.
        + intros lo L S0. exact I.
    Qed.

    Lemma dispatch_D st k a : okD st (dispatch rec st k a).
    Proof.
      unfold x_dispatch.
      assert (F := call_all_D true k a (xfilters st) st).
      destruct (call_all rec true st k (xfilters st) a) as [r b]. simpl in F.
      destruct r as [st1|t s0 s1|].
      - destruct b.
        + assert (L := call_all_D false k a (xlst st1 k) st1).
          destruct (call_all rec false st1 k (xlst st1 k) a) as [r2 b2]. simpl in *.
          assert (X : okD st r2) by (eapply okD_pre; [|exact L]; intros lo Hl S0; apply (F lo Hl S0)).
          destruct r2 as [st2|t s0 s1|]; simpl in *; try exact X. destruct no_catch; exact X.
        + simpl. exact F.
      - simpl. destruct no_catch; exact F.
      - intros lo L S0. exact I.
    Qed.

    Lemma eval_pred_D st p e : okD st (fst (eval_pred rec st p e)).
    Proof.
      unfold x_eval_pred. destruct (pbehav p _) as [body verdict]. simpl.
      eapply okD_same; [| |apply HD]; reflexivity.
    Qed.

    Definition okDloop (st : xstate) (lo N : nat) (r : xres * list xevent * nat) : Prop :=
      match r with
      | (XOk st', out, _) => SB N st' /\ xnexts st <= xnexts st' /\ StronglySorted lt (seqs out) /\ inb lo N out
      | (XExn _ _ s1, _, _) => SB N s1 /\ xnexts st <= xnexts s1
      | (XErr, _, _) => True
      end.

    Lemma okDloop_pre st st1 lo N r : xnexts st <= xnexts st1 -> okDloop st1 lo N r -> okDloop st lo N r.
    Proof.
      intros L H. destruct r as [[r out] i]. destruct r; simpl in *; try exact I.
      - destruct H as [A [B C]]. split; [exact A|]. split; [lia|exact C].
      - destruct H as [A B]. split; [exact A|lia].
    Qed.

    Lemma ploop_D mode p lo N : forall temp st kept idle,
      N <= xnexts st -> SB N st ->
      StronglySorted lt (seqs (rev kept ++ temp)) -> inb lo N (rev kept ++ temp) ->
      okDloop st lo N (ploop rec mode p st temp kept idle).
    Proof.
      induction temp as [|e rest IH]; intros st kept idle HN HS Hs Hb; simpl.
      - rewrite app_nil_r in *. split; [exact HS|]. split; [lia|]. split; assumption.
      - assert (Hs' : StronglySorted lt (seqs (rev kept ++ rest))).
        { unfold seqs in *. rewrite map_app in *. simpl in Hs. apply ss_drop_middle in Hs. exact Hs. }
        assert (Hb' : inb lo N (rev kept ++ rest)).
        { apply inb_app in Hb. destruct Hb as [B1 B2]. apply inb_app. split; [exact B1|]. inversion B2; assumption. }
        assert (GO : forall st1, N <= xnexts st1 -> SB N st1 -> xnexts st <= xnexts st1 ->
                  okDloop st lo N
                    (match dispatch rec st1 (xkey e) (xarg e) with
                     | XOk st2 => ploop rec mode p (xu_live st2 (xlive st2 - 1)%Z) rest kept (S idle)
                     | XExn t s0 s1 => (XExn t s0 (x_discard s1 (S (length rest + length kept))), [], idle)
                     | XErr => (XErr, [], idle)
                     end)).
        { intros st1 HN1 HS1 L1. assert (D := dispatch_D st1 (xkey e) (xarg e) N HN1 HS1).
          destruct (dispatch rec st1 (xkey e) (xarg e)) as [st2|t s0 s1|]; simpl in *.
          - destruct D as [D1 D2]. eapply okDloop_pre; [|apply IH]; simpl; try assumption; try lia.
          - destruct D as [D1 D2]. split; [exact D1|simpl; lia].
          - exact I. }
        destruct mode as [|m]; [apply GO; [exact HN|exact HS|lia]|].
        assert (P := eval_pred_D st p e N HN HS). destruct (eval_pred rec st p e) as [r v]. simpl in P.
        destruct r as [st1|t s0 s1|]; simpl in *.
        + destruct P as [P1 P2]. destruct m as [|m']; simpl; destruct v; try (apply GO; [lia|exact P1|exact P2]).
          * eapply okDloop_pre; [exact P2|]. apply IH; [lia|exact P1| |]; simpl; rewrite <- app_assoc; simpl; assumption.
          * split; [exact P1|]. split; [exact P2|]. split; assumption.
        + destruct P as [P1 P2]. split; [exact P1|exact P2].
        + exact I.
    Qed.

    Lemma put_back_sorted lo N st2 out :
      SB N st2 -> N <= xnexts st2 -> lo <= N -> StronglySorted lt (seqs out) -> inb lo N out ->
      SB lo (xu_pend st2 (out ++ xpend st2)).
    Proof.
      intros [S2 B2] HN L So Bo. split; simpl.
      - unfold seqs. rewrite map_app. apply ss_app; [exact So|exact S2|].
        intros x y Hx Hy. unfold seqs in *. apply in_map_iff in Hx. destruct Hx as [ex [Ex Hx]]. apply in_map_iff in Hy. destruct Hy as [ey [Ey Hy]].
        unfold inb in *. rewrite Forall_forall in Bo, B2. specialize (Bo ex Hx). specialize (B2 ey Hy). lia.
      - apply inb_app. split; [eapply inb_weaken; [apply Nat.le_refl|exact HN|exact Bo]|eapply inb_weaken; [exact L|apply Nat.le_refl|exact B2]].
    Qed.

    Lemma processing_D which mode p st temp remaining lo N :
      lo <= N -> N <= xnexts st ->
      StronglySorted lt (seqs temp) -> inb lo N temp ->
      StronglySorted lt (seqs remaining) -> inb N (xnexts st) remaining ->
      match processing rec which mode p st temp remaining with
      | XOk st' => SB lo st' /\ xnexts st <= xnexts st'
      | XExn _ _ s1 => SB lo s1 /\ xnexts st <= xnexts s1
      | XErr => True
      end.
    Proof.
      intros L HN St Bt Sr Br. unfold x_processing.
      assert (LP := ploop_D mode p lo N temp (xu_pend (xu_count st (S (xcount st))) remaining) [] 0 HN (conj Sr Br) St Bt).
      destruct (ploop rec mode p _ temp [] 0) as [[r kept] idle]. unfold okDloop in LP.
      destruct r as [st2|t s0 s1|]; simpl in *.
      - destruct LP as [A [B [C D]]]. split; [|exact B].
        assert (X := put_back_sorted lo N st2 kept A (Nat.le_trans _ _ _ HN B) L C D).
        unfold SB in *. simpl in *. exact X.
      - destruct LP as [A B]. split; [|destruct (guard_raii which); simpl; exact B].
        apply (SB_weaken N lo) in A; [|exact L]. destruct (guard_raii which); unfold SB in *; simpl; exact A.
      - exact I.
    Qed.

    Lemma step_D st c : okD st (step rec st c).
    Proof.
      assert (Same : forall st', xpend st' = xpend st -> xnexts st' = xnexts st -> okD st (XOk st')).
      { intros st' E1 E2 lo L S0. unfold SB in *. rewrite E1, E2. split; [exact S0|lia]. }
      destruct c; simpl; try (apply Same; reflexivity).
      - destruct (xlookup hb (xhregs st)) as [[k' b]|]; [|apply Same; reflexivity].
        destruct (Nat.eqb k' k); [|intros lo L S0; exact I]. destruct (xhas b (xlst st k)); apply Same; reflexivity.
      - destruct (xlookup h (xhregs st)) as [[k' b]|]; [|apply Same; reflexivity].
        destruct (Nat.eqb k' k); [|intros lo L S0; exact I]. destruct (xhas b (xlst st k)); apply Same; reflexivity.
      - destruct (xlookup h (xfregs st)) as [b|]; [|apply Same; reflexivity]. destruct (xhas b (xfilters st)); apply Same; reflexivity.
      - apply dispatch_D.
      - (* enqueue *)
        intros lo L [S0 B0]. split; [|simpl; lia]. split; simpl.
        + unfold seqs. rewrite map_app. apply ss_app; [exact S0|repeat constructor|].
          intros x y Hx Hy. simpl in Hy. destruct Hy as [Hy|[]]. subst y. unfold seqs in Hx. apply in_map_iff in Hx.
          destruct Hx as [ex [Ex Hx]]. unfold inb in B0. rewrite Forall_forall in B0. specialize (B0 ex Hx). lia.
        + apply inb_app. split; [eapply inb_weaken; [apply Nat.le_refl| |exact B0]; lia|]. repeat constructor; simpl; lia.
      - (* process *)
        destruct (xpend st) as [|e0 rest0] eqn:E; [apply Same; [simpl; assumption|reflexivity]|].
        intros lo L [S0 B0]. rewrite E in *.
        apply (processing_D 0 0 0 st (e0 :: rest0) [] lo (xnexts st)); try assumption; try lia; constructor.
      - (* processOne *)
        destruct (xpend st) as [|e0 rest0] eqn:E; [apply Same; [simpl; assumption|reflexivity]|].
        intros lo L [S0 B0]. rewrite E in *. simpl in S0. inversion S0 as [|? ? St Sh]; subst. inversion B0 as [|? ? Be Br]; subst.
        apply (processing_D 1 0 0 st [e0] rest0 lo (S (xseq e0))); try lia.
        + repeat constructor.
        + repeat constructor; lia.
        + exact St.
        + unfold inb in *. rewrite Forall_forall in *. intros x Hx. specialize (Br x Hx). specialize (Sh (xseq x) (in_seqs x rest0 Hx)). lia.
      - destruct (xpend st) as [|e0 rest0] eqn:E; [apply Same; [simpl; assumption|reflexivity]|].
        intros lo L [S0 B0]. rewrite E in *.
        apply (processing_D 2 1 p st (e0 :: rest0) [] lo (xnexts st)); try assumption; try lia; constructor.
      - destruct (xpend st) as [|e0 rest0] eqn:E; [apply Same; [simpl; assumption|reflexivity]|].
        intros lo L [S0 B0]. rewrite E in *.
        apply (processing_D 3 2 p st (e0 :: rest0) [] lo (xnexts st)); try assumption; try lia; constructor.
    Qed.

    Lemma seq_D : forall cs st, okD st (seq rec st cs).
    Proof.
      induction cs as [|c r IH]; intros st; simpl; [intros lo L S0; split; [exact S0|lia]|].
      assert (S := step_D st c). destruct (step rec st c) as [st1|t s0 s1|]; simpl in *; [|exact S|exact S].
      eapply okD_pre; [|apply IH]. exact S.
    Qed.
  End LoopsD.

  Theorem run_D : forall fuel st cs, okD st (run fuel st cs).
  Proof. induction fuel as [|f IH]; intros st cs; simpl; [intros lo L S0; exact I|]. apply seq_D. exact IH. Qed.

  Theorem main_D fuel : forall cs st st' lo, lo <= xnexts st -> SB lo st -> main fuel st cs = Some st' -> SB lo st' /\ xnexts st <= xnexts st'.
  Proof.
    induction cs as [|c r IH]; intros st st' lo L S0 H; simpl in H; [inversion H; subst; split; [exact S0|lia]|].
    assert (D := run_D fuel st [c] lo L S0). destruct (run fuel st [c]) as [st1|t s0 s1|]; [| |discriminate]; destruct D as [D1 D2].
    - destruct (IH st1 st' lo (Nat.le_trans _ _ _ L D2) D1 H) as [A B]. split; [exact A|lia].
    - assert (S1 : SB lo (xlog s1 (XCaught t))) by exact D1.
      destruct (IH (xlog s1 (XCaught t)) st' lo (Nat.le_trans _ _ _ L D2) S1 H) as [A B]. split; [exact A|simpl in B; lia].
  Qed.

  (* ================================================================ F: the outermost caller; the state after a caught exception *)

  (* between the caller's commands nothing is in dispatch and every live payload is a queued event *)
  Definition quiescent (st : xstate) : Prop := xcount st = 0 /\ xlive st = zlen (xpend st).

  Theorem main_quiescent fuel : forall cs st st', quiescent st -> main fuel st cs = Some st' -> quiescent st'.
  Proof.
    induction cs as [|c r IH]; intros st st' Q H; simpl in H; [inversion H; subst; exact Q|].
    assert (A := run_A fuel st [c]). assert (B := run_B fuel st [c]).
    destruct (run fuel st [c]) as [st1|t s0 s1|]; [| |discriminate]; simpl in A, B.
    - apply (IH st1 st'); [|exact H]. destruct Q as [Q1 Q2]. split; [congruence|]. unfold held in B. lia.
    - apply (IH _ st') in H; [exact H|]. destruct Q as [Q1 Q2]. destruct A as [A1 A2]. split; simpl; [congruence|].
      unfold held in B. lia.
  Qed.

  Theorem main_app fuel : forall p1 p2 st,
    main fuel st (p1 ++ p2) = match main fuel st p1 with Some st1 => main fuel st1 p2 | None => None end.
  Proof.
    induction p1 as [|c r IH]; intros p2 st; simpl; [reflexivity|].
    destruct (run fuel st [c]) as [st1|t s0 s1|]; [apply IH|apply IH|reflexivity].
  Qed.
End Proofs.

(* ================================================================ E: emptiness and the wait predicate *)

(* with nothing in dispatch, emptyQueue() and doCanProcess() — the bodies generated from eventqueue.h —
   answer exactly "no event pending" / "an event is pending" *)
Theorem empty_and_wait_correct st :
  xcount st = 0 -> x_empty_queue st = x_pend_empty st /\ x_can_process st = negb (x_pend_empty st).
Proof.
  intros H. unfold x_empty_queue, x_can_process, GenQ.can_process, GenQ.empty_queue, GenQ.can_notify. rewrite H.
  destruct (x_pend_empty st); split; reflexivity.
Qed.

(* while an event is in dispatch emptyQueue() is false *)
Theorem empty_false_in_dispatch st : 1 <= xcount st -> x_empty_queue st = false.
Proof.
  intros H. unfold x_empty_queue, GenQ.empty_queue.
  assert (E : (Z.of_nat (xcount st) =? 0)%Z = false) by (apply Z.eqb_neq; lia). rewrite E.
  destruct (x_pend_empty st); reflexivity.
Qed.

(* ================================================================ the headers' facts (tie A) *)

Lemma code_guard_raii_true : forall w, code_guard_raii w = true.
Proof. intros w. unfold code_guard_raii. destruct w as [|[|[|w]]]; reflexivity. Qed.

Lemma code_no_catch_true : code_no_catch = true.
Proof. reflexivity. Qed.

(* with a manual ++/-- instead of CounterGuard the counter stays incremented after a throwing listener,
   and emptyQueue() never answers true again: the witness *)
Definition leaky_behav (c n : nat) : list xcmd := match c with 1 => [XThrow 7] | _ => [] end.
Definition leaky_prog : list xcmd := [XAppend 0 1 0; XEnqueue 0 5%Z; XProcess; XEmpty].

Theorem manual_counter_refuted :
  exists st', x_main true (fun _ => false) leaky_behav (fun _ _ => ([], true)) (fun _ _ => ([], true)) 5 x_init leaky_prog = Some st'
    /\ xcount st' = 1 /\ xpend st' = [] /\ hd (XRet true) (xtrace st') = XRet false.
Proof. eexists. split; [vm_compute; reflexivity|]. repeat split. Qed.

(* a catch that swallows: the caller never sees the exception *)
Theorem swallowing_catch_refuted :
  exists st', x_main false (fun _ => true) leaky_behav (fun _ _ => ([], true)) (fun _ _ => ([], true)) 5 x_init leaky_prog = Some st'
    /\ ~ In (XCaught 7) (xtrace st') /\ In (XThrew 7) (xtrace st').
Proof.
  eexists. split; [vm_compute; reflexivity|]. split.
  - simpl. intros H. repeat (destruct H as [H|H]; [discriminate|]). exact H.
  - simpl. tauto.
Qed.
