(* ExnQueueProofs.v — C09 part 2, proofs about the interpreter of ExnQueue.v, for ALL programs
   (induction over fuel, command lists, listener lists and the local list of a processing call):
     A  the in-dispatch counter after any command list, completed or thrown, is the one before;
        between the throw statement and the catch only that counter and the ledger change;
     B  ledger: payloads alive minus events queued is the same before and after — a processing call
        destroys exactly what it took out and did not put back, never a queued event;
     C  every XThrew t in the outermost trace is immediately followed by XCaught t;
     E  emptyQueue() / doCanProcess() computed from the post-state are those of the pending list;
     F  the state after a caught exception is an ordinary state: later programs run from it.
   The interpreter's two deviation switches are section variables; the theorems are then
   instantiated with what tools/leaves/exn.py read off the headers (code_no_catch,
   code_guard_raii), so a header that loses CounterGuard or gains a swallowing catch breaks them. *)
From Coq Require Import List Arith NArith ZArith Bool Lia.
From EV Require Import ExnQueue.
From EV.gen Require GenQ GenExn.
Import ListNotations.
Local Open Scope nat_scope.

(* s1 differs from s0 in the counter and the ledger only *)
Definition unw (s0 s1 : xstate) : Prop :=
  xpend s1 = xpend s0 /\ xlsts s1 = xlsts s0 /\ xfilters s1 = xfilters s0 /\ xnexth s1 = xnexth s0 /\
  xnexts s1 = xnexts s0 /\ xhregs s1 = xhregs s0 /\ xfregs s1 = xfregs s0 /\ xacts s1 = xacts s0 /\
  xfacts s1 = xfacts s0 /\ xpacts s1 = xpacts s0 /\ xtrace s1 = xtrace s0.

Lemma unw_refl s : unw s s.
Proof. repeat split. Qed.
Lemma unw_live s0 s1 v : unw s0 s1 -> unw s0 (xu_live s1 v).
Proof. unfold unw. simpl. tauto. Qed.
Lemma unw_count s0 s1 v : unw s0 s1 -> unw s0 (xu_count s1 v).
Proof. unfold unw. simpl. tauto. Qed.

Definition zlen {A} (l : list A) : Z := Z.of_nat (length l).

Section Proofs.
  Variable no_catch : bool.
  Variable guard_raii : nat -> bool.
  Hypothesis Hraii : forall w, guard_raii w = true.
  Variable behav : nat -> nat -> list xcmd.
  Variable fbehav : nat -> nat -> list xcmd * bool.
  Variable pbehav : nat -> nat -> list xcmd * bool.

  Local Notation call_all := (x_call_all behav fbehav).
  Local Notation dispatch := (x_dispatch no_catch behav fbehav).
  Local Notation eval_pred := (x_eval_pred pbehav).
  Local Notation ploop := (x_ploop no_catch behav fbehav pbehav).
  Local Notation processing := (x_processing no_catch guard_raii behav fbehav pbehav).
  Local Notation step := (x_step no_catch guard_raii behav fbehav pbehav).
  Local Notation seq := (x_seq no_catch guard_raii behav fbehav pbehav).
  Local Notation run := (x_run no_catch guard_raii behav fbehav pbehav).
  Local Notation main := (x_main no_catch guard_raii behav fbehav pbehav).

  (* ================================================================ A: counter and unwinding *)

  Definition okA (st : xstate) (r : xres) : Prop :=
    match r with
    | XOk st' => xcount st' = xcount st
    | XExn _ s0 s1 => xcount s1 = xcount st /\ unw s0 s1
    | XErr => True
    end.

  Lemma okA_pre st st1 r : xcount st1 = xcount st -> okA st1 r -> okA st r.
  Proof. intros E H. destruct r; simpl in *; [congruence| |exact I]. destruct H; split; [congruence|assumption]. Qed.

  Section LoopsA.
    Variable rec : xstate -> list xcmd -> xres.
    Hypothesis HA : forall st cs, okA st (rec st cs).

    Lemma call_all_A flt k a : forall todo st, okA st (fst (call_all rec flt st k todo a)).
    Proof.
      induction todo as [|[h c] rest IH]; intros st; simpl; [reflexivity|].
      destruct (xhas h (if flt then xfilters st else xlst st k)); [|apply IH].
      destruct flt.
      - destruct (fbehav c _) as [body verdict] eqn:Eb.
        match goal with |- context [rec ?S body] => specialize (HA S body); destruct (rec S body) as [s3|t s0 s1|] end; simpl in *.
        + destruct verdict; [eapply okA_pre; [|apply IH]; exact HA|simpl; exact HA].
        + exact HA.
        + exact I.
      - match goal with |- context [rec ?S ?B] => specialize (HA S B); destruct (rec S B) as [s3|t s0 s1|] end; simpl in *.
        + eapply okA_pre; [|apply IH]; exact HA.
        + exact HA.
        + exact I.
    Qed.

    Lemma dispatch_A st k a : okA st (dispatch rec st k a).
    Proof.
      unfold x_dispatch.
      assert (F := call_all_A true k a (xfilters st) st).
      destruct (call_all rec true st k (xfilters st) a) as [r b]. simpl in F.
      destruct r as [st1|t s0 s1|].
      - destruct b.
        + assert (L := call_all_A false k a (xlst st1 k) st1).
          destruct (call_all rec false st1 k (xlst st1 k) a) as [r2 b2]. simpl in *.
          destruct r2 as [st2|t s0 s1|]; simpl in *; [congruence| |exact I].
          destruct L as [L1 L2]. destruct no_catch; simpl; [split; [congruence|exact L2]|congruence].
        + simpl. exact F.
      - simpl in F. destruct F as [F1 F2]. destruct no_catch; simpl; [split; assumption|exact F1].
      - exact I.
    Qed.

    Lemma eval_pred_A st p e : okA st (fst (eval_pred rec st p e)).
    Proof.
      unfold x_eval_pred. destruct (pbehav p _) as [body verdict]. simpl.
      match goal with |- context [rec ?S body] => specialize (HA S body); destruct (rec S body) end; simpl in *; assumption.
    Qed.

    Lemma ploop_A mode p : forall temp st kept idle, okA st (fst (fst (ploop rec mode p st temp kept idle))).
    Proof.
      induction temp as [|e rest IH]; intros st kept idle; simpl; [reflexivity|].
      assert (GO : forall st1, xcount st1 = xcount st ->
                okA st (fst (fst (match dispatch rec st1 (xkey e) (xarg e) with
                                  | XOk st2 => ploop rec mode p (xu_live st2 (xlive st2 - 1)%Z) rest kept (S idle)
                                  | XExn t s0 s1 => (XExn t s0 (x_discard s1 (S (length rest + length kept))), [], idle)
                                  | XErr => (XErr, [], idle)
                                  end)))).
      { intros st1 E1. assert (D := dispatch_A st1 (xkey e) (xarg e)).
        destruct (dispatch rec st1 (xkey e) (xarg e)) as [st2|t s0 s1|]; simpl in *.
        - eapply okA_pre; [|apply IH]. simpl. congruence.
        - destruct D as [D1 D2]. split; [congruence|apply unw_live; exact D2].
        - exact I. }
      destruct mode as [|m]; [apply GO; reflexivity|].
      assert (P := eval_pred_A st p e). destruct (eval_pred rec st p e) as [r v]. simpl in P.
      destruct r as [st1|t s0 s1|]; simpl in *.
      - destruct m as [|m']; simpl; destruct v; try (apply GO; exact P).
        + eapply okA_pre; [exact P|apply IH].
        + simpl. exact P.
      - destruct P as [P1 P2]. split; [exact P1|apply unw_live; exact P2].
      - exact I.
    Qed.

    Lemma processing_A which mode p st temp remaining : okA st (processing rec which mode p st temp remaining).
    Proof.
      unfold x_processing.
      assert (L := ploop_A mode p temp (xu_pend (xu_count st (S (xcount st))) remaining) [] 0).
      destruct (ploop rec mode p _ temp [] 0) as [[r kept] idle]. simpl in L.
      destruct r as [st2|t s0 s1|]; simpl in *.
      - rewrite L. reflexivity.
      - destruct L as [L1 L2]. rewrite Hraii. simpl. split; [rewrite L1; reflexivity|apply unw_count; exact L2].
      - exact I.
    Qed.

    Lemma step_A st c : okA st (step rec st c).
    Proof.
      destruct c; simpl; try reflexivity.
      - destruct (xlookup hb (xhregs st)) as [[k' b]|]; [|reflexivity].
        destruct (Nat.eqb k' k); [|exact I]. destruct (xhas b (xlst st k)); reflexivity.
      - destruct (xlookup h (xhregs st)) as [[k' b]|]; [|reflexivity].
        destruct (Nat.eqb k' k); [|exact I]. destruct (xhas b (xlst st k)); reflexivity.
      - destruct (xlookup h (xfregs st)) as [b|]; [|reflexivity]. destruct (xhas b (xfilters st)); reflexivity.
      - apply dispatch_A.
      - destruct (xpend st); [reflexivity|apply processing_A].
      - destruct (xpend st); [reflexivity|apply processing_A].
      - destruct (xpend st); [reflexivity|apply processing_A].
      - destruct (xpend st); [reflexivity|apply processing_A].
      - split; [reflexivity|apply unw_refl].
    Qed.

    Lemma seq_A : forall cs st, okA st (seq rec st cs).
    Proof.
      induction cs as [|c r IH]; intros st; simpl; [reflexivity|].
      assert (S := step_A st c). destruct (step rec st c) as [st1|t s0 s1|]; simpl in *; [|exact S|exact I].
      eapply okA_pre; [exact S|apply IH].
    Qed.
  End LoopsA.

  Theorem run_A : forall fuel st cs, okA st (run fuel st cs).
  Proof. induction fuel as [|f IH]; intros st cs; simpl; [exact I|]. apply seq_A. exact IH. Qed.

  (* ================================================================ B: ledger *)

  Definition held (st : xstate) : Z := (xlive st - zlen (xpend st))%Z.

  Definition okB (st : xstate) (r : xres) : Prop :=
    match r with
    | XOk st' => held st' = held st
    | XExn _ _ s1 => held s1 = held st
    | XErr => True
    end.

  Lemma okB_pre st st1 r : held st1 = held st -> okB st1 r -> okB st r.
  Proof. intros E H. destruct r; simpl in *; congruence. Qed.

  Ltac zl := unfold held, zlen, x_discard in *; cbn -[Z.of_nat] in *; rewrite ?app_length, ?rev_length in *; cbn -[Z.of_nat] in *;
             rewrite ?Zpos_P_of_succ_nat in *; lia.

  Section LoopsB.
    Variable rec : xstate -> list xcmd -> xres.
    Hypothesis HB : forall st cs, okB st (rec st cs).

    Lemma call_all_B flt k a : forall todo st, okB st (fst (call_all rec flt st k todo a)).
    Proof.
      induction todo as [|[h c] rest IH]; intros st; simpl; [reflexivity|].
      destruct (xhas h (if flt then xfilters st else xlst st k)); [|apply IH].
      destruct flt.
      - destruct (fbehav c _) as [body verdict] eqn:Eb.
        match goal with |- context [rec ?S body] => specialize (HB S body); destruct (rec S body) as [s3|t s0 s1|] end; simpl in *.
        + destruct verdict; [eapply okB_pre; [|apply IH]; exact HB|simpl; exact HB].
        + exact HB.
        + exact I.
      - match goal with |- context [rec ?S ?B] => specialize (HB S B); destruct (rec S B) as [s3|t s0 s1|] end; simpl in *.
        + eapply okB_pre; [|apply IH]; exact HB.
        + exact HB.
        + exact I.
    Qed.

    Lemma dispatch_B st k a : okB st (dispatch rec st k a).
    Proof.
      unfold x_dispatch.
      assert (F := call_all_B true k a (xfilters st) st).
      destruct (call_all rec true st k (xfilters st) a) as [r b]. simpl in F.
      destruct r as [st1|t s0 s1|].
      - destruct b.
        + assert (L := call_all_B false k a (xlst st1 k) st1).
          destruct (call_all rec false st1 k (xlst st1 k) a) as [r2 b2]. simpl in *.
          destruct r2 as [st2|t s0 s1|]; simpl in *; [congruence| |exact I].
          destruct no_catch; simpl; congruence.
        + simpl. exact F.
      - simpl in F. destruct no_catch; simpl; exact F.
      - exact I.
    Qed.

    Lemma eval_pred_B st p e : okB st (fst (eval_pred rec st p e)).
    Proof.
      unfold x_eval_pred. destruct (pbehav p _) as [body verdict]. simpl.
      match goal with |- context [rec ?S body] => specialize (HB S body); destruct (rec S body) end; simpl in *; assumption.
    Qed.

    Definition okBloop (st : xstate) (temp kept : list xevent) (r : xres * list xevent * nat) : Prop :=
      match r with
      | (XOk st', out, _) => (held st' - zlen out = held st - zlen temp - zlen kept)%Z
      | (XExn _ _ s1, _, _) => (held s1 = held st - zlen temp - zlen kept)%Z
      | (XErr, _, _) => True
      end.

    Lemma ploop_B mode p : forall temp st kept idle, okBloop st temp kept (ploop rec mode p st temp kept idle).
    Proof.
      induction temp as [|e rest IH]; intros st kept idle; simpl; [(unfold okBloop in *; zl)|].
      assert (GO : forall st1, held st1 = held st ->
                okBloop st (e :: rest) kept
                  (match dispatch rec st1 (xkey e) (xarg e) with
                   | XOk st2 => ploop rec mode p (xu_live st2 (xlive st2 - 1)%Z) rest kept (S idle)
                   | XExn t s0 s1 => (XExn t s0 (x_discard s1 (S (length rest + length kept))), [], idle)
                   | XErr => (XErr, [], idle)
                   end)).
      { intros st1 E1. assert (D := dispatch_B st1 (xkey e) (xarg e)).
        destruct (dispatch rec st1 (xkey e) (xarg e)) as [st2|t s0 s1|]; simpl in *.
        - specialize (IH (xu_live st2 (xlive st2 - 1)%Z) kept (S idle)).
          destruct (ploop rec mode p (xu_live st2 (xlive st2 - 1)%Z) rest kept (S idle)) as [[r out] i]. unfold okBloop in *.
          destruct r; try exact I; (unfold okBloop in *; zl).
        - (unfold okBloop in *; zl).
        - exact I. }
      destruct mode as [|m]; [apply GO; reflexivity|].
      assert (P := eval_pred_B st p e). destruct (eval_pred rec st p e) as [r v]. simpl in P.
      destruct r as [st1|t s0 s1|]; simpl in *.
      - destruct m as [|m']; simpl; destruct v; try (apply GO; exact P).
        + specialize (IH st1 (e :: kept) idle).
          destruct (ploop rec 1 p st1 rest (e :: kept) idle) as [[r out] i]. unfold okBloop in *. destruct r; try exact I; (unfold okBloop in *; zl).
        + (unfold okBloop in *; zl).
      - (unfold okBloop in *; zl).
      - exact I.
    Qed.

    Lemma processing_B which mode p st temp remaining :
      zlen (xpend st) = (zlen temp + zlen remaining)%Z -> okB st (processing rec which mode p st temp remaining).
    Proof.
      intros Hlen. unfold x_processing.
      assert (L := ploop_B mode p temp (xu_pend (xu_count st (S (xcount st))) remaining) [] 0).
      destruct (ploop rec mode p _ temp [] 0) as [[r kept] idle]. unfold okBloop in L.
      destruct r as [st2|t s0 s1|]; simpl in *.
      - zl.
      - rewrite Hraii. zl.
      - exact I.
    Qed.

    Lemma step_B st c : okB st (step rec st c).
    Proof.
      destruct c; simpl; try reflexivity.
      - destruct (xlookup hb (xhregs st)) as [[k' b]|]; [|reflexivity].
        destruct (Nat.eqb k' k); [|exact I]. destruct (xhas b (xlst st k)); reflexivity.
      - destruct (xlookup h (xhregs st)) as [[k' b]|]; [|reflexivity].
        destruct (Nat.eqb k' k); [|exact I]. destruct (xhas b (xlst st k)); reflexivity.
      - destruct (xlookup h (xfregs st)) as [b|]; [|reflexivity]. destruct (xhas b (xfilters st)); reflexivity.
      - apply dispatch_B.
      - zl.
      - destruct (xpend st) eqn:E; [reflexivity|apply processing_B; rewrite E; zl].
      - destruct (xpend st) eqn:E; [reflexivity|apply processing_B; rewrite E; zl].
      - destruct (xpend st) eqn:E; [reflexivity|apply processing_B; rewrite E; zl].
      - destruct (xpend st) eqn:E; [reflexivity|apply processing_B; rewrite E; zl].
    Qed.

    Lemma seq_B : forall cs st, okB st (seq rec st cs).
    Proof.
      induction cs as [|c r IH]; intros st; simpl; [reflexivity|].
      assert (S := step_B st c). destruct (step rec st c) as [st1|t s0 s1|]; simpl in *; [|exact S|exact I].
      eapply okB_pre; [exact S|apply IH].
    Qed.
  End LoopsB.

  Theorem run_B : forall fuel st cs, okB st (run fuel st cs).
  Proof. induction fuel as [|f IH]; intros st cs; simpl; [exact I|]. apply seq_B. exact IH. Qed.

  (* ================================================================ C: a throw reaches the outermost caller at once *)

  (* traces are kept latest first *)
  Fixpoint goodtr (l : list xev) : Prop :=
    match l with
    | [] => True
    | e :: r => match r with XThrew t :: _ => e = XCaught t | _ => True end /\ goodtr r
    end.
  Definition closedtr (l : list xev) : Prop := match l with XThrew _ :: _ => False | _ => True end.
  Definition gc (l : list xev) : Prop := goodtr l /\ closedtr l.
  Definition not_threw (e : xev) : Prop := match e with XThrew _ => False | _ => True end.

  Lemma gc_log l e : gc l -> not_threw e -> gc (e :: l).
  Proof.
    intros [G C] N. split; [|destruct e; simpl in *; tauto].
    simpl. split; [|exact G]. destruct l as [|x r]; [exact I|]. destruct x; try exact I. simpl in C. contradiction.
  Qed.

  Lemma gc_threw l t : gc l -> goodtr (XThrew t :: l).
  Proof. intros [G C]. simpl. split; [|exact G]. destruct l as [|x r]; [exact I|]. destruct x; try exact I. simpl in C. contradiction. Qed.

  Lemma gc_caught l t : gc l -> gc (XCaught t :: XThrew t :: l).
  Proof. intros H. split; [|exact I]. simpl. split; [reflexivity|]. apply (gc_threw l t H). Qed.

  Section TraceC.
    Hypothesis Hnc : no_catch = true.

    Definition okC (st : xstate) (r : xres) : Prop :=
      gc (xtrace st) ->
      match r with
      | XOk st' => gc (xtrace st')
      | XExn t _ s1 => exists tr, xtrace s1 = XThrew t :: tr /\ gc tr
      | XErr => True
      end.

    Lemma okC_pre st st1 r : (gc (xtrace st) -> gc (xtrace st1)) -> okC st1 r -> okC st r.
    Proof. intros E H G. apply H. apply E. exact G. Qed.

    Section LoopsC.
      Variable rec : xstate -> list xcmd -> xres.
      Hypothesis HC : forall st cs, okC st (rec st cs).

      Lemma call_all_C flt k a : forall todo st, okC st (fst (call_all rec flt st k todo a)).
      Proof.
        induction todo as [|[h c] rest IH]; intros st; simpl; [intros G; exact G|].
        destruct (xhas h (if flt then xfilters st else xlst st k)); [|apply IH].
        destruct flt.
        - destruct (fbehav c _) as [body verdict] eqn:Eb.
          match goal with |- context [rec ?S body] => specialize (HC S body); destruct (rec S body) as [s3|t s0 s1|] end; simpl in *.
          + destruct verdict.
            * intros G. apply IH. apply HC. simpl. apply gc_log; [exact G|exact I].
            * simpl. intros G. apply HC. simpl. apply gc_log; [exact G|exact I].
          + intros G. apply HC. simpl. apply gc_log; [exact G|exact I].
          + intros _. exact I.
        - match goal with |- context [rec ?S ?B] => specialize (HC S B); destruct (rec S B) as [s3|t s0 s1|] end; simpl in *.
          + intros G. apply IH. apply HC. simpl. apply gc_log; [exact G|exact I].
          + intros G. apply HC. simpl. apply gc_log; [exact G|exact I].
          + intros _. exact I.
      Qed.

      Lemma dispatch_C st k a : okC st (dispatch rec st k a).
      Proof.
        unfold x_dispatch. rewrite Hnc.
        assert (F := call_all_C true k a (xfilters st) st).
        destruct (call_all rec true st k (xfilters st) a) as [r b]. simpl in F.
        destruct r as [st1|t s0 s1|].
        - destruct b.
          + assert (L := call_all_C false k a (xlst st1 k) st1).
            destruct (call_all rec false st1 k (xlst st1 k) a) as [r2 b2]. simpl in *.
            destruct r2 as [st2|t s0 s1|]; simpl in *; intros G; try exact I; apply L; apply F; exact G.
          + simpl. exact F.
        - simpl. exact F.
        - intros _. exact I.
      Qed.

      Lemma eval_pred_C st p e : okC st (fst (eval_pred rec st p e)).
      Proof.
        unfold x_eval_pred. destruct (pbehav p _) as [body verdict]. simpl.
        match goal with |- context [rec ?S body] => specialize (HC S body); destruct (rec S body) end; simpl in *;
          intros G; try exact I; apply HC; simpl; apply gc_log; [exact G|exact I | exact G|exact I].
      Qed.

      Lemma ploop_C mode p : forall temp st kept idle, okC st (fst (fst (ploop rec mode p st temp kept idle))).
      Proof.
        induction temp as [|e rest IH]; intros st kept idle; simpl; [intros G; exact G|].
        assert (GO : forall st1, (gc (xtrace st) -> gc (xtrace st1)) ->
                  okC st (fst (fst (match dispatch rec st1 (xkey e) (xarg e) with
                                    | XOk st2 => ploop rec mode p (xu_live st2 (xlive st2 - 1)%Z) rest kept (S idle)
                                    | XExn t s0 s1 => (XExn t s0 (x_discard s1 (S (length rest + length kept))), [], idle)
                                    | XErr => (XErr, [], idle)
                                    end)))).
        { intros st1 E1. assert (D := dispatch_C st1 (xkey e) (xarg e)).
          destruct (dispatch rec st1 (xkey e) (xarg e)) as [st2|t s0 s1|]; simpl in *.
          - intros G. apply IH. simpl. apply D. apply E1. exact G.
          - intros G. apply D. apply E1. exact G.
          - intros _. exact I. }
        destruct mode as [|m]; [apply GO; intros G; exact G|].
        assert (P := eval_pred_C st p e). destruct (eval_pred rec st p e) as [r v]. simpl in P.
        destruct r as [st1|t s0 s1|]; simpl in *.
        - destruct m as [|m']; simpl; destruct v; try (apply GO; exact P).
          + intros G. apply IH. apply P. exact G.
          + simpl. exact P.
        - exact P.
        - intros _. exact I.
      Qed.

      Lemma processing_C which mode p st temp remaining : okC st (processing rec which mode p st temp remaining).
      Proof.
        unfold x_processing.
        assert (L := ploop_C mode p temp (xu_pend (xu_count st (S (xcount st))) remaining) [] 0).
        destruct (ploop rec mode p _ temp [] 0) as [[r kept] idle]. simpl in L.
        destruct r as [st2|t s0 s1|]; simpl in *.
        - intros G. apply gc_log; [apply L; exact G|exact I].
        - intros G. destruct (L G) as [tr [E1 E2]]. exists tr. split; [|exact E2]. destruct (guard_raii which); simpl; exact E1.
        - intros _. exact I.
      Qed.

      Lemma step_C st c : okC st (step rec st c).
      Proof.
        destruct c; simpl; try (intros G; simpl; first [exact G | apply gc_log; [exact G|exact I]]).
        - destruct (xlookup hb (xhregs st)) as [[k' b]|]; [|intros G; exact G].
          destruct (Nat.eqb k' k); [|intros _; exact I]. destruct (xhas b (xlst st k)); intros G; exact G.
        - destruct (xlookup h (xhregs st)) as [[k' b]|]; [|intros G; apply gc_log; [exact G|exact I]].
          destruct (Nat.eqb k' k); [|intros _; exact I]. destruct (xhas b (xlst st k)); intros G; apply gc_log; try exact G; exact I.
        - destruct (xlookup h (xfregs st)) as [b|]; [|intros G; apply gc_log; [exact G|exact I]].
          destruct (xhas b (xfilters st)); intros G; apply gc_log; try exact G; exact I.
        - apply dispatch_C.
        - destruct (xpend st); [intros G; apply gc_log; [exact G|exact I]|apply processing_C].
        - destruct (xpend st); [intros G; apply gc_log; [exact G|exact I]|apply processing_C].
        - destruct (xpend st); [intros G; apply gc_log; [exact G|exact I]|apply processing_C].
        - destruct (xpend st); [intros G; apply gc_log; [exact G|exact I]|apply processing_C].
        - intros G. exists (xtrace st). split; [reflexivity|exact G].
      Qed.

      Lemma seq_C : forall cs st, okC st (seq rec st cs).
      Proof.
        induction cs as [|c r IH]; intros st; simpl; [intros G; exact G|].
        assert (S := step_C st c). destruct (step rec st c) as [st1|t s0 s1|]; simpl in *; [|exact S|intros _; exact I].
        intros G. apply IH. apply S. exact G.
      Qed.
    End LoopsC.

    Theorem run_C : forall fuel st cs, okC st (run fuel st cs).
    Proof. induction fuel as [|f IH]; intros st cs; simpl; [intros _; exact I|]. apply seq_C. exact IH. Qed.

    (* the outermost trace: every throw is followed at once by the catch of the same tag *)
    Theorem main_C fuel : forall cs st st', gc (xtrace st) -> main fuel st cs = Some st' -> gc (xtrace st').
    Proof.
      induction cs as [|c r IH]; intros st st' G H; simpl in H; [inversion H; subst; exact G|].
      assert (R := run_C fuel st [c] G). destruct (run fuel st [c]) as [st1|t s0 s1|]; [| |discriminate].
      - apply (IH st1 st' R H).
      - destruct R as [tr [E1 E2]]. apply (IH _ st' ) in H; [exact H|]. simpl. rewrite E1. apply gc_caught. exact E2.
    Qed.
  End TraceC.

  (* ================================================================ F: the outermost caller; the state after a caught exception *)

  (* between the caller's commands nothing is in dispatch and every live payload is a queued event *)
  Definition quiescent (st : xstate) : Prop := xcount st = 0 /\ xlive st = zlen (xpend st).

  Theorem main_quiescent fuel : forall cs st st', quiescent st -> main fuel st cs = Some st' -> quiescent st'.
  Proof.
    induction cs as [|c r IH]; intros st st' Q H; simpl in H; [inversion H; subst; exact Q|].
    assert (A := run_A fuel st [c]). assert (B := run_B fuel st [c]).
    destruct (run fuel st [c]) as [st1|t s0 s1|]; [| |discriminate]; simpl in A, B.
    - apply (IH st1 st'); [|exact H]. destruct Q as [Q1 Q2]. split; [congruence|]. unfold held in B. lia.
    - apply (IH _ st') in H; [exact H|]. destruct Q as [Q1 Q2]. destruct A as [A1 A2]. split; simpl; [congruence|].
      unfold held in B. lia.
  Qed.

  Theorem main_app fuel : forall p1 p2 st,
    main fuel st (p1 ++ p2) = match main fuel st p1 with Some st1 => main fuel st1 p2 | None => None end.
  Proof.
    induction p1 as [|c r IH]; intros p2 st; simpl; [reflexivity|].
    destruct (run fuel st [c]) as [st1|t s0 s1|]; [apply IH|apply IH|reflexivity].
  Qed.
End Proofs.

(* ================================================================ E: emptiness and the wait predicate *)

(* with nothing in dispatch, emptyQueue() and doCanProcess() — the bodies generated from eventqueue.h —
   answer exactly "no event pending" / "an event is pending" *)
Theorem empty_and_wait_correct st :
  xcount st = 0 -> x_empty_queue st = x_pend_empty st /\ x_can_process st = negb (x_pend_empty st).
Proof.
  intros H. unfold x_empty_queue, x_can_process, GenQ.can_process, GenQ.empty_queue, GenQ.can_notify. rewrite H. simpl.
  rewrite !andb_true_r. split; reflexivity.
Qed.

(* while an event is in dispatch emptyQueue() is false *)
Theorem empty_false_in_dispatch st : 1 <= xcount st -> x_empty_queue st = false.
Proof.
  intros H. unfold x_empty_queue, GenQ.empty_queue.
  assert (E : (Z.of_nat (xcount st) =? 0)%Z = false) by (apply Z.eqb_neq; lia). rewrite E. apply andb_false_r.
Qed.

(* ================================================================ the headers' facts (tie A) *)

Lemma code_guard_raii_true : forall w, code_guard_raii w = true.
Proof. intros w. unfold code_guard_raii. destruct w as [|[|[|w]]]; reflexivity. Qed.

Lemma code_no_catch_true : code_no_catch = true.
Proof. reflexivity. Qed.

(* with a manual ++/-- instead of CounterGuard the counter stays incremented after a throwing listener,
   and emptyQueue() never answers true again: the witness *)
Definition leaky_behav (c n : nat) : list xcmd := match c with 1 => [XThrow 7] | _ => [] end.
Definition leaky_prog : list xcmd := [XAppend 0 1 0; XEnqueue 0 5%Z; XProcess; XEmpty].

Theorem manual_counter_refuted :
  exists st', x_main true (fun _ => false) leaky_behav (fun _ _ => ([], true)) (fun _ _ => ([], true)) 5 x_init leaky_prog = Some st'
    /\ xcount st' = 1 /\ xpend st' = [] /\ hd (XRet true) (xtrace st') = XRet false.
Proof. eexists. split; [vm_compute; reflexivity|]. repeat split. Qed.

(* a catch that swallows: the caller never sees the exception *)
Theorem swallowing_catch_refuted :
  exists st', x_main false (fun _ => true) leaky_behav (fun _ _ => ([], true)) (fun _ _ => ([], true)) 5 x_init leaky_prog = Some st'
    /\ ~ In (XCaught 7) (xtrace st') /\ In (XThrew 7) (xtrace st').
Proof.
  eexists. split; [vm_compute; reflexivity|]. split.
  - simpl. intros H. repeat (destruct H as [H|H]; [discriminate|]). exact H.
  - simpl. tauto.
Qed.
