(* Extraction of the C09 models for tie B: the fault-plan interpreter over the profiles built from the
   generated facts (f_run), its specification-side twin (f_run_spec), the throwing-listener interpreter
   instantiated with the headers' facts (xc_run_case) and with the demanded ones (xs_run_case).
   ExtrOcamlBasic only. *)
Require Extraction.
Require Import ExtrOcamlBasic.
From EV Require ExnModel ExnQueue.
Extraction Language OCaml.
Set Extraction Optimize.
Definition exn_f_run := ExnModel.f_run.
Definition exn_f_run_spec := ExnModel.f_run_spec.
Definition exn_x_code := ExnQueue.xc_run_case.
Definition exn_x_spec := ExnQueue.xs_run_case.
Extraction "../ocaml/gen/exn_model.ml" exn_f_run exn_f_run_spec exn_x_code exn_x_spec.
