(* Properties_C20.v — C20: behaviour is independent of policies, compiler, standard level and
   prior memory.

   What is a theorem: the models carry the configuration as EXPLICIT parameters and the results
   do not depend on them — the order in which a conforming compiler evaluates the arguments of a
   call (for the call shapes the headers have, tie A), whether the language level applies the
   implicit move to `return e;` (given the shape of DefaultGetEvent::getEvent, tie A), the
   previous content of object storage (given the constructors' initialiser lists, tie A), and
   the map discipline (ordered by operator< or hashed: C18's verified lookup models agree).
   What is only correspondence: compilers, optimisers and standard libraries are not modelled;
   the case files of C01, C04, C05 and C10 are run on harness binaries built with g++ and
   clang++, -O0/-O2, -std=c++11..20, the Threading / Map / Callback / ArgumentPassing policies
   and three storage pre-fill patterns, and every trace must equal the model's single trace. *)
From Coq Require Import List Arith NArith ZArith Bool Permutation.
From EV Require Import CallShape Config CopyModel CopyProofs AnyIdModel AnyIdProofs.
From EV.gen Require GenDisp GenCtor.
Import ListNotations.

(* evaluation order: every call site that reads and forwards its parameters, in every class *)
Theorem C20_results_independent_of_argument_evaluation_order :
  forall n movable kread env evs1 evs2,
    length env = n ->
    (forall sh, In sh [GenDisp.dispatch_shape; GenDisp.dispatch_first_shape; GenDisp.enqueue_shape; GenDisp.enqueue_first_shape;
                       GenDisp.heter_enqueue_incl_shape; GenDisp.heter_enqueue_excl_shape;
                       GenDisp.heter_dispatch_incl_shape; GenDisp.heter_dispatch_excl_shape] ->
       admissible n sh evs1 -> admissible n sh evs2 ->
       key (run movable kread false env evs1) = key (run movable kread false env evs2) /\
       forall i, i < n -> plookup i (params (run movable kread false env evs1)) = plookup i (params (run movable kread false env evs2))).
Proof.
  intros n movable kread env evs1 evs2 Hl sh Hin.
  apply (order_independent n movable kread sh env evs1 evs2); [|exact Hl].
  simpl in Hin. repeat (destruct Hin as [<-|Hin]; [discriminate|]). destruct Hin.
Qed.
Print Assumptions C20_results_independent_of_argument_evaluation_order.

(* language level: implicit move of `return e;` (C++20, clang in every mode) or not *)
Theorem C20_results_independent_of_implicit_move :
  forall n movable kread env evs (im1 im2 : bool),
    length env = n -> admissible n GenDisp.heter_dispatch_incl_shape evs ->
    run movable kread (key_is_moved GenDisp.getevent_returns_param_plainly im1) env evs
    = run movable kread (key_is_moved GenDisp.getevent_returns_param_plainly im2) env evs.
Proof.
  intros n movable kread env evs im1 im2 Hl A.
  exact (implicit_move_independent n movable kread GenDisp.heter_dispatch_incl_shape env evs im1 im2
           (fun E => match E in (_ = s) return (match s with GenDisp.Call => False | _ => True end) with eq_refl => I end) Hl A).
Qed.
Print Assumptions C20_results_independent_of_implicit_move.

(* prior memory: homogeneous and heterogeneous queues *)
Theorem C20_results_independent_of_prior_memory :
  forall a b a' b' n cs,
    c_run_case GenCtor.eq_copy_inits_counters GenCtor.eq_copy_counters_from_source
               GenCtor.eq_move_inits_counters GenCtor.eq_move_counters_from_source a b GenCtor.eq_copy_assign_self_safe n cs
    = c_run_case GenCtor.eq_copy_inits_counters GenCtor.eq_copy_counters_from_source
                 GenCtor.eq_move_inits_counters GenCtor.eq_move_counters_from_source a' b' GenCtor.eq_copy_assign_self_safe n cs /\
    c_run_case GenCtor.heq_copy_inits_counters GenCtor.heq_copy_counters_from_source
               GenCtor.heq_move_inits_counters GenCtor.heq_move_counters_from_source a b GenCtor.heq_copy_assign_self_safe n cs
    = c_run_case GenCtor.heq_copy_inits_counters GenCtor.heq_copy_counters_from_source
                 GenCtor.heq_move_inits_counters GenCtor.heq_move_counters_from_source a' b' GenCtor.heq_copy_assign_self_safe n cs.
Proof. intros a b a' b' n cs. exact (conj (junk_independent _ _ _ a b a' b' n cs) (junk_independent _ _ _ a b a' b' n cs)). Qed.
Print Assumptions C20_results_independent_of_prior_memory.

(* map kind: ordered (std::map with operator<) and hashed (std::unordered_map with std::hash and ==)
   return the same listeners for every history of registrations, for keys with coherent == / < / hash *)
Theorem C20_results_independent_of_map_kind :
  forall (V : Type) (ceq clt : V -> V -> bool), value_order clt ceq ->
    forall (L : Type) (bidx : Z -> Z) (ops : list (id V * L)) (k : id V),
      sm_find (alt clt) k (sm_run (alt clt) ops) = bm_find (aeq ceq) ahash bidx k (bm_run (aeq ceq) ahash bidx ops).
Proof.
  intros V ceq clt Hv L bidx ops k.
  destruct (lookup_any V ceq clt Hv L bidx ops k) as [A [B _]]. exact (eq_trans A (eq_sym B)).
Qed.
Print Assumptions C20_results_independent_of_map_kind.

(* regression witnesses: the three configuration dependences that were repaired *)
Theorem C20_order_dependence_refuted_for_call_shape :
  forall n movable kread env,
    1 <= n -> movable 0 = true -> In 0 kread -> length env = n ->
    exists evs, admissible n GenDisp.Call evs /\ exists k, key (run movable kread false env evs) = Some k /\ In MovedFrom k.
Proof. intros n movable kread env. exact (call_site_refuted n movable kread false env). Qed.

Theorem C20_implicit_move_dependence_refuted_for_plain_return :
  exists evs, admissible 1 GenDisp.Statement evs /\
              plookup 0 (params (run (fun _ => true) [0] (key_is_moved true true) [Val 7] evs)) = Some MovedFrom.
Proof. exact key_move_refuted. Qed.

Theorem C20_prior_memory_dependence_refuted_for_uninitialised_counters :
  exists junk x, GenQ.empty_queue (is_nil (opending (copy_of false false junk junk x))) (oecnt (copy_of false false junk junk x)) = false.
Proof. exact uninitialised_counters_refuted. Qed.
