(* CLTrav.v — C03: a traversal (invocation / enumeration) running while OTHER threads add and remove.

   doForEachIf reads head under the mutex, then repeats: look at the node it stands on (plain
   fields: counter, callback) and maybe visit it; take the mutex and move to node->next.  Between
   any two of these steps other threads execute critical sections (CLConcProofs.sec: the sections of
   append / prepend / insert / remove, with ARBITRARY non-zero counters, since counters are drawn
   before the mutex is taken).  Every execution is therefore a sequence of events
        TOther s (another thread's section)  |  TVisit (look at the current node)  |  TAdvance (node = node->next)
   and we prove, for EVERY such sequence (any length, any mix, any positions):

     * no callback is visited twice;
     * every callback that was in the list when the traversal started, satisfies the visit test
       (its counter is not newer than the captured one) and is not removed while the traversal
       runs, has been visited when the traversal ends — exactly once, by the first item;
     * the traversal never leaves the heap (every cursor is a node or null).

   The proof is the `first_live` calculus of CLHeap/CLOps: rem = the members of the list from the
   first live node at or after the cursor.  A section of another thread changes rem only by dropping
   the node it removes or by inserting its brand-new node; the traversal's own step drops exactly the
   live node it stands on — after having looked at it. *)
From Coq Require Import List Arith NArith ZArith Bool Lia.
From EV Require Import CLModel CLHeap CLOps CLRefine CLConcProofs.
From EV.gen Require GenCL.
Import ListNotations.
Local Open Scope nat_scope.

Inductive tev := TOther (s : sec) | TVisit | TAdvance.

Record tst := mkT {
  tg : group;
  tids : list nid;          (* ghost: the list's content (CLConcProofs.sec_spec) *)
  tcur : option nid;        (* the node the traversal stands on *)
  tph : bool;               (* the current node has been looked at; the next own step is the advance *)
  tvis : list nid;          (* visited, oldest first *)
  tgone : list nid          (* removed by other threads since the traversal started *)
}.

(* ---------- what another thread's section does to "what is ahead of a cursor" ---------- *)

Definition removed_by (s : sec) (g : group) (y : nid) : Prop :=
  match s with SRemove (Some x) => x = y /\ is_live g x = true | _ => False end.

Lemma first_live_in_ids g ids c x : GInv g ids -> first_live (heap g) c (Some x) -> In x ids.
Proof.
  intros G H. destruct (first_live_some _ _ _ H) as [nd [A B]]. eapply gi_live; eauto.
Qed.

Lemma sfrom_insert_mem (x n y : nat) (p q : list nat) :
  x <> n -> y <> n -> (In y (sfrom x (p ++ n :: q)) <-> In y (sfrom x (p ++ q))).
Proof.
  intros Hx Hy.
  pose proof (filter_sfrom_insert (fun z => negb (Nat.eqb z n)) x n p q) as F.
  cbv beta in F. rewrite Nat.eqb_refl in F. specialize (F eq_refl Hx).
  assert (P : forall l, In y (filter (fun z => negb (Nat.eqb z n)) l) <-> In y l).
  { intros l. rewrite filter_In. split; [tauto|]. intros H. split; [exact H|].
    apply negb_true_iff. apply Nat.eqb_neq. exact Hy. }
  rewrite <- (P (sfrom x (p ++ n :: q))), <- (P (sfrom x (p ++ q))), F. tauto.
Qed.

Lemma link_ahead g ids (p q : list nat) m :
  GInv g ids -> ids = p ++ q -> (forall x, m = Some x -> In x ids) ->
  forall y, y < length (heap g) ->
    (In y (sfrom_o m (p ++ length (heap g) :: q)) <-> In y (sfrom_o m (p ++ q))).
Proof.
  intros G E Hm y Hy. destruct m as [x|]; [|tauto]. cbn [sfrom_o].
  assert (Hx : x < length (heap g)).
  { eapply lchain_bound; [apply (gi_chain _ _ G)|]. apply Hm. reflexivity. }
  apply sfrom_insert_mem; lia.
Qed.

Lemma other_effect g ids s :
  GInv g ids -> sec_counter_ok s ->
  let g' := fst (sec_step g s) in
  let ids' := fst (sec_spec (length (heap g)) ids s) in
  GInv g' ids' /\ length (heap g) <= length (heap g') /\
  (forall j nd, nth_error (heap g) j = Some nd ->
     exists nd', nth_error (heap g') j = Some nd' /\ (~ removed_by s g j -> ctr nd' = ctr nd)) /\
  (forall c m, first_live (heap g) c m ->
     exists m', first_live (heap g') c m' /\
       forall y, y < length (heap g) -> (In y (sfrom_o m' ids') <-> In y (sfrom_o m ids) /\ ~ removed_by s g y)).
Proof.
  intros G Hk. cbv zeta.
  destruct (section_refines g ids s G Hk) as [G' _].
  split; [exact G'|].
  assert (Hlen := sec_step_heap_length g s).
  split; [rewrite Hlen; destruct s; lia|].
  assert (Keep : forall g2, extends (heap g) (heap g2) ->
            forall j nd, nth_error (heap g) j = Some nd -> exists nd', nth_error (heap g2) j = Some nd' /\ (~ False -> ctr nd' = ctr nd)).
  { intros g2 E j nd Hj. destruct (E j nd Hj) as [nd' [A [B [C D]]]]. exists nd'. auto. }
  assert (Same : forall (P : Prop), (P <-> P /\ ~ False)) by tauto.
  destruct s as [c k|c k|c k [b|]|[x|]|[x|]|]; cbn [sec_step sec_spec fst removed_by] in *.
  - (* back *)
    destruct (link_back_inv g ids c k G Hk) as (G2 & FL & E & _).
    split; [apply Keep; exact E|].
    intros cur m H. exists m. split; [apply FL; exact H|]. intros y Hy.
    rewrite <- Same. replace ids with (ids ++ []) at 2 by apply app_nil_r.
    apply (link_ahead g ids ids [] m G); [symmetry; apply app_nil_r| |exact Hy].
    intros z ->. eapply first_live_in_ids; eauto.
  - (* front *)
    destruct (link_front_inv g ids c k G Hk) as (G2 & FL & E & _).
    split; [apply Keep; exact E|].
    intros cur m H. exists m. split; [apply FL; exact H|]. intros y Hy.
    rewrite <- Same. apply (link_ahead g ids [] ids m G); [reflexivity| |exact Hy].
    intros z ->. eapply first_live_in_ids; eauto.
  - (* before b *)
    rewrite (is_live_iff g ids b G) in *. destruct (existsb (Nat.eqb b) ids) eqn:Eb; cbn [fst].
    + apply existsb_exists in Eb. destruct Eb as [b' [Hb Eb]]. apply Nat.eqb_eq in Eb. subst b'.
      destruct (in_split _ _ Hb) as [a [r Eids]]. subst ids.
      destruct (nodup_split_notin _ _ _ (gi_nodup _ _ G)) as [Hba _].
      rewrite (ins_before_id_split b _ a r Hba).
      destruct (link_before_inv g a b r c k G Hk) as (G2 & FL & E & _).
      split; [apply Keep; exact E|].
      intros cur m H. exists m. split; [apply FL; exact H|]. intros y Hy.
      rewrite <- Same. apply (link_ahead g (a ++ b :: r) a (b :: r) m G); [reflexivity| |exact Hy].
      intros z ->. eapply first_live_in_ids; eauto.
    + destruct (link_back_inv g ids c k G Hk) as (G2 & FL & E & _).
      split; [apply Keep; exact E|].
      intros cur m H. exists m. split; [apply FL; exact H|]. intros y Hy.
      rewrite <- Same. replace ids with (ids ++ []) at 2 by apply app_nil_r.
      apply (link_ahead g ids ids [] m G); [symmetry; apply app_nil_r| |exact Hy].
      intros z ->. eapply first_live_in_ids; eauto.
  - (* before, expired handle *)
    destruct (link_back_inv g ids c k G Hk) as (G2 & FL & E & _).
    split; [apply Keep; exact E|].
    intros cur m H. exists m. split; [apply FL; exact H|]. intros y Hy.
    rewrite <- Same. replace ids with (ids ++ []) at 2 by apply app_nil_r.
    apply (link_ahead g ids ids [] m G); [symmetry; apply app_nil_r| |exact Hy].
    intros z ->. eapply first_live_in_ids; eauto.
  - (* remove x *)
    rewrite (is_live_iff g ids x G) in *. destruct (existsb (Nat.eqb x) ids) eqn:Ex; cbn [fst].
    + apply existsb_exists in Ex. destruct Ex as [x' [Hx Ex]]. apply Nat.eqb_eq in Ex. subst x'.
      destruct (in_split _ _ Hx) as [a [r Eids]]. subst ids.
      assert (Hnd := gi_nodup _ _ G).
      rewrite (filter_neq_split a x r Hnd).
      destruct (unlink_inv g a x r G) as (G2 & FL & Nodes & _).
      split.
      * intros j nd Hj. destruct (Nodes j nd Hj) as [nd' [A [B [C D]]]]. exists nd'. split; [exact A|].
        intros Hn. apply C. intro Ej. apply Hn. split; [symmetry; exact Ej|reflexivity].
      * intros cur m H. eexists. split; [apply FL; exact H|]. intros y Hy.
        rewrite (sfrom_o_unlink m x a r Hnd). rewrite filter_In. unfold neqb.
        split.
        -- intros [A B]. split; [exact A|]. intros [E _]. subst y. rewrite Nat.eqb_refl in B. discriminate.
        -- intros [A B]. split; [exact A|]. apply negb_true_iff. apply Nat.eqb_neq. intro E. apply B. split; [symmetry; exact E|reflexivity].
    + split; [intros j nd Hj; exists nd; auto|].
      intros cur m H. exists m. split; [exact H|]. intros y Hy. split; [intros A; split; [exact A|intros [_ X]; discriminate]|tauto].
  - split; [intros j nd Hj; exists nd; auto|].
    intros cur m H. exists m. split; [exact H|]. intros y Hy. tauto.
  - split; [intros j nd Hj; exists nd; auto|].
    intros cur m H. exists m. split; [exact H|]. intros y Hy. tauto.
  - split; [intros j nd Hj; exists nd; auto|].
    intros cur m H. exists m. split; [exact H|]. intros y Hy. tauto.
  - split; [intros j nd Hj; exists nd; auto|].
    intros cur m H. exists m. split; [exact H|]. intros y Hy. tauto.
Qed.

Section Trav.
  Variable capt : N.        (* the counter the traversal captured *)

  Definition tstep (st : tst) (e : tev) : tst :=
    match e with
    | TOther s =>
        mkT (fst (sec_step (tg st) s)) (fst (sec_spec (length (heap (tg st))) (tids st) s)) (tcur st) (tph st) (tvis st)
            (match s with SRemove (Some x) => if is_live (tg st) x then x :: tgone st else tgone st | _ => tgone st end)
    | TVisit =>
        if tph st then st else
        match tcur st with
        | Some n =>
            match nth_error (heap (tg st)) n with
            | Some nd => mkT (tg st) (tids st) (tcur st) true
                             (if GenCL.visit_cond (ctr nd) capt then tvis st ++ [n] else tvis st) (tgone st)
            | None => st
            end
        | None => st
        end
    | TAdvance =>
        if tph st then
          match tcur st with
          | Some n =>
              match nth_error (heap (tg st)) n with
              | Some nd => mkT (tg st) (tids st) (nxt nd) false (tvis st) (tgone st)
              | None => st
              end
          | None => st
          end
        else st
    end.

  Definition trun (st : tst) (evs : list tev) : tst := fold_left tstep evs st.

  Definition ev_ok (e : tev) : Prop := match e with TOther s => sec_counter_ok s | _ => True end.

  Lemma visit_cond_live c : GenCL.visit_cond c capt = true -> c <> GenCL.removed_marker.
  Proof. unfold GenCL.visit_cond. intros H. apply andb_true_iff in H. destruct H as [H _]. apply negb_true_iff in H. apply N.eqb_neq in H. exact H. Qed.

  (* what is still ahead of the cursor *)
  Definition ahead (st : tst) (m : option nid) : list nid := sfrom_o m (tids st).

  Record TInv (ids0 : list nid) (st : tst) : Prop := mkTI {
    ti_g : GInv (tg st) (tids st);
    ti_cur : forall n, tcur st = Some n -> exists nd, nth_error (heap (tg st)) n = Some nd;
    ti_vis_lt : forall v, In v (tvis st) -> v < length (heap (tg st));
    ti_nodup : NoDup (tvis st);
    ti_behind : forall m, first_live (heap (tg st)) (tcur st) m ->
                forall v, In v (tvis st) -> ~ In v (ahead st m) \/ (tph st = true /\ tcur st = Some v);
    ti_cond : forall z, In z ids0 -> ~ In z (tgone st) ->
              exists nd, nth_error (heap (tg st)) z = Some nd /\ GenCL.visit_cond (ctr nd) capt = true;
    ti_seen : forall z, tph st = true -> tcur st = Some z -> In z ids0 -> ~ In z (tgone st) -> In z (tvis st);
    ti_todo : forall m, first_live (heap (tg st)) (tcur st) m ->
              forall z, In z ids0 -> ~ In z (tgone st) -> In z (ahead st m) \/ In z (tvis st)
  }.

  Lemma sfrom_self x ids : In x ids -> In x (sfrom x ids).
  Proof.
    induction ids as [|y r IH]; intros H; cbn [sfrom]; [destruct H|].
    destruct (Nat.eqb_spec x y) as [->|Hne]; [left; reflexivity|].
    destruct H as [->|H]; [contradiction|]. apply IH; exact H.
  Qed.

  Lemma first_live_exists g ids c :
    GInv g ids -> (forall n, c = Some n -> exists nd, nth_error (heap g) n = Some nd) ->
    exists m, first_live (heap g) c m.
  Proof.
    intros G H. destruct c as [n|]; [|exists None; constructor].
    destruct (H n eq_refl) as [nd Hn]. destruct (ginv_first_live _ _ G n nd Hn) as [m [A _]]. eauto.
  Qed.

  Lemma tstep_inv ids0 st e : TInv ids0 st -> ev_ok e -> TInv ids0 (tstep st e).
  Proof.
    intros HI Hok. pose proof HI as [G Hcur Hlt Hnd Hbeh Hcond Hseen Htodo].
    destruct e as [s| |]; cbn [tstep].
    - (* another thread's section *)
      cbn [ev_ok] in Hok.
      destruct (other_effect (tg st) (tids st) s G Hok) as (G' & Hlen & Hkeep & Hfl).
      set (gone' := match s with SRemove (Some x) => if is_live (tg st) x then x :: tgone st else tgone st | _ => tgone st end).
      assert (Hsub : forall z, In z (tgone st) -> In z gone').
      { intros z Hz. subst gone'. destruct s as [| | |[x|]| |]; auto. destruct (is_live (tg st) x); [right|]; exact Hz. }
      assert (Hrem : forall z, removed_by s (tg st) z -> In z gone').
      { intros z Hz. subst gone'. destruct s as [| | |[x|]| |]; cbn [removed_by] in Hz; try contradiction.
        destruct Hz as [-> E]. rewrite E. left; reflexivity. }
      assert (Hold : exists m, first_live (heap (tg st)) (tcur st) m) by (eapply first_live_exists; eauto).
      destruct Hold as [m0 Hm0]. destruct (Hfl _ _ Hm0) as (m1 & Hm1 & Heq).
      constructor; cbn [tg tids tcur tph tvis tgone].
      + exact G'.
      + intros n En. destruct (Hcur n En) as [nd Hn]. destruct (Hkeep n nd Hn) as [nd' [A _]]. eauto.
      + intros v Hv. specialize (Hlt v Hv). lia.
      + exact Hnd.
      + intros m Hm v Hv. rewrite (first_live_fun _ _ _ Hm _ Hm1).
        destruct (Hbeh m0 Hm0 v Hv) as [A|A]; [left|right; exact A].
        unfold ahead in *. cbn [tids]. intros X. apply A. apply (Heq v (Hlt v Hv)). exact X.
      + intros z Hz Hg. assert (Hg0 : ~ In z (tgone st)) by (intro X; apply Hg; apply Hsub; exact X).
        destruct (Hcond z Hz Hg0) as [nd [Hn Hc]]. destruct (Hkeep z nd Hn) as [nd' [A B]].
        exists nd'. split; [exact A|]. rewrite B; [exact Hc|]. intro X. apply Hg. apply Hrem. exact X.
      + intros z Hp Hc Hz Hg. apply Hseen; auto.
      + intros m Hm z Hz Hg. rewrite (first_live_fun _ _ _ Hm _ Hm1).
        assert (Hg0 : ~ In z (tgone st)) by (intro X; apply Hg; apply Hsub; exact X).
        destruct (Htodo m0 Hm0 z Hz Hg0) as [A|A]; [left|right; exact A].
        unfold ahead in *. cbn [tids].
        destruct (Hcond z Hz Hg0) as [nd [Hn _]].
        assert (Hzl : z < length (heap (tg st))) by (apply nth_error_Some; rewrite Hn; discriminate).
        apply (Heq z Hzl). split; [exact A|]. intro X. apply Hg. apply Hrem. exact X.
    - (* look at the current node *)
      destruct (tph st) eqn:Eph; [exact HI|].
      destruct (tcur st) as [n|] eqn:Ec; [|exact HI].
      destruct (nth_error (heap (tg st)) n) as [nd|] eqn:En; [|exact HI].
      assert (Hnl : n < length (heap (tg st))) by (apply nth_error_Some; rewrite En; discriminate).
      destruct (GenCL.visit_cond (ctr nd) capt) eqn:Ev.
      + assert (Hlive : live nd) by (apply visit_cond_live; exact Ev).
        assert (Hfl : first_live (heap (tg st)) (Some n) (Some n)) by (eapply fl_live; eauto).
        assert (Hin : In n (tids st)) by (eapply gi_live; eauto).
        assert (Hnv : ~ In n (tvis st)).
        { intros X. destruct (Hbeh _ Hfl n X) as [A|[A _]]; [|congruence].
          apply A. unfold ahead. cbn [sfrom_o]. apply sfrom_self. exact Hin. }
        constructor; cbn [tg tids tcur tph tvis tgone]; auto.
        * intros v Hv. apply in_app_or in Hv. destruct Hv as [Hv|[<-|[]]]; auto.
        * apply nodup_snoc; assumption.
        * intros m Hm v Hv. apply in_app_or in Hv. destruct Hv as [Hv|[<-|[]]].
          -- destruct (Hbeh m Hm v Hv) as [A|[A _]]; [left; exact A|congruence].
          -- right. split; reflexivity.
        * intros z _ Ez Hz Hg. apply in_or_app. right. left. congruence.
        * intros m Hm z Hz Hg. destruct (Htodo m Hm z Hz Hg) as [A|A]; [left; exact A|right; apply in_or_app; left; exact A].
      + constructor; cbn [tg tids tcur tph tvis tgone]; auto.
        all: try (intros m Hm v Hv; destruct (Hbeh m Hm v Hv) as [A|[A _]]; [left; exact A|congruence]).
        all: try (intros z _ Ez Hz Hg; injection Ez as <-; destruct (Hcond n Hz Hg) as [nd' [A B]]; rewrite En in A; injection A as <-; congruence).
        all: try (intros m Hm z Hz Hg; apply (Htodo m Hm z Hz Hg)).
    - (* node = node->next *)
      destruct (tph st) eqn:Eph; [|exact HI].
      destruct (tcur st) as [n|] eqn:Ec; [|exact HI].
      destruct (nth_error (heap (tg st)) n) as [nd|] eqn:En; [|exact HI].
      destruct (live_dec nd) as [Hl|Hd].
      + (* standing on a live member: it is the head of what is ahead; the rest remains *)
        assert (Hin : In n (tids st)) by (eapply gi_live; eauto).
        destruct (in_split _ _ Hin) as [a [b Eids]].
        assert (Hnd' : NoDup (a ++ n :: b)) by (rewrite <- Eids; apply (gi_nodup _ _ G)).
        destruct (nodup_split_notin _ _ _ Hnd') as [Hna Hnb].
        destruct (ginv_member _ _ G a n b Eids) as [nd' [A [_ [Hnx _]]]]. rewrite En in A. injection A as <-.
        assert (Hfl0 : first_live (heap (tg st)) (Some n) (Some n)) by (eapply fl_live; eauto).
        assert (Hnext : first_live (heap (tg st)) (nxt nd) (hd_error b)).
        { rewrite Hnx. destruct b as [|y b']; [constructor|]. cbn [hd_error].
          assert (Hy : In y (tids st)) by (rewrite Eids; apply in_or_app; right; right; left; reflexivity).
          destruct (lchain_in _ _ _ (gi_chain _ _ G) y Hy) as [yn [Y1 Y2]]. eapply fl_live; eauto. }
        assert (Hah : sfrom_o (hd_error b) (tids st) = b) by (rewrite Eids; apply sfrom_o_hd_tail; exact Hnd').
        assert (Hah0 : sfrom n (tids st) = n :: b) by (rewrite Eids; apply sfrom_split; exact Hna).
        constructor; cbn [tg tids tcur tph tvis tgone]; auto.
        * intros k Ek. rewrite Hnx in Ek. destruct b as [|y b']; [discriminate|]. injection Ek as <-.
          apply (ginv_in_heap _ _ G). rewrite Eids. apply in_or_app; right; right; left; reflexivity.
        * intros m Hm v Hv. left. rewrite (first_live_fun _ _ _ Hm _ Hnext). unfold ahead. cbn [tids]. rewrite Hah.
          destruct (Hbeh _ Hfl0 v Hv) as [X|[_ X]].
          -- unfold ahead in X. cbn [sfrom_o] in X. rewrite Hah0 in X. intro Y. apply X. right; exact Y.
          -- injection X as <-. exact Hnb.
        * intros z X; discriminate.
        * intros m Hm z Hz Hg. rewrite (first_live_fun _ _ _ Hm _ Hnext). unfold ahead. cbn [tids]. rewrite Hah.
          destruct (Htodo _ Hfl0 z Hz Hg) as [X|X]; [|right; exact X].
          unfold ahead in X. cbn [sfrom_o] in X. rewrite Hah0 in X. destruct X as [<-|X]; [|left; exact X].
          right. apply Hseen; auto.
      + (* standing on a node that was removed under the traversal: its stale link leads to the same first live member *)
        assert (Hnin : ~ In n (tids st)).
        { intro X. destruct (lchain_in _ _ _ (gi_chain _ _ G) n X) as [nd' [A B]]. rewrite En in A. injection A as <-. contradiction. }
        constructor; cbn [tg tids tcur tph tvis tgone]; auto.
        * intros k Ek. destruct (gi_dead _ _ G n nd En Hd) as [m [F _]]. rewrite Ek in F. inversion F; eauto.
        * intros m Hm v Hv. left.
          assert (Hm0 : first_live (heap (tg st)) (Some n) m) by (eapply fl_dead; eauto).
          destruct (Hbeh m Hm0 v Hv) as [X|[_ X]]; [exact X|].
          injection X as <-. intro Y. apply Hnin. unfold ahead in Y. cbn [tids] in Y. destruct m as [x|]; [|destruct Y].
          apply (sfrom_incl x (tids st)). exact Y.
        * intros z X; discriminate.
        * intros m Hm z Hz Hg.
          assert (Hm0 : first_live (heap (tg st)) (Some n) m) by (eapply fl_dead; eauto).
          apply (Htodo m Hm0 z Hz Hg).
  Qed.

  Definition tinit (g : group) (ids : list nid) : tst := mkT g ids (ghead g) false [] [].

  Lemma tinit_inv g ids :
    GInv g ids ->
    (forall z, In z ids -> exists nd, nth_error (heap g) z = Some nd /\ GenCL.visit_cond (ctr nd) capt = true) ->
    TInv ids (tinit g ids).
  Proof.
    intros G Hc. constructor; cbn [tinit tg tids tcur tph tvis tgone].
    - exact G.
    - intros n En. rewrite (gi_head _ _ G) in En. apply (ginv_in_heap _ _ G). destruct ids; [discriminate|]. injection En as <-. left; reflexivity.
    - intros v [].
    - constructor.
    - intros m _ v [].
    - intros z Hz _. apply Hc; exact Hz.
    - intros z X; discriminate.
    - intros m Hm z Hz _. left. unfold ahead. cbn [tids]. rewrite (gi_head _ _ G) in Hm.
      destruct ids as [|x r]; [destruct Hz|]. cbn [hd_error] in Hm.
      destruct (lchain_in _ _ _ (gi_chain _ _ G) x (or_introl eq_refl)) as [xn [X1 X2]].
      rewrite (first_live_fun _ _ _ Hm _ (fl_live _ x xn X1 X2)). change (In z (sfrom x ([] ++ x :: r))). rewrite (sfrom_split [] x r (fun F => F)). exact Hz.
  Qed.

  Lemma trun_inv ids0 evs : forall st, TInv ids0 st -> Forall ev_ok evs -> TInv ids0 (trun st evs).
  Proof.
    induction evs as [|e r IH]; intros st H Hok; cbn [trun fold_left]; [exact H|].
    inversion Hok; subst. apply IH; [apply tstep_inv; assumption|assumption].
  Qed.

  (* THE THEOREM: any interleaving of the traversal's own steps with other threads' sections *)
  Theorem traversal_under_interference g ids evs :
    GInv g ids ->
    (forall z, In z ids -> exists nd, nth_error (heap g) z = Some nd /\ GenCL.visit_cond (ctr nd) capt = true) ->
    Forall ev_ok evs ->
    let st := trun (tinit g ids) evs in
    NoDup (tvis st) /\
    (tcur st = None -> forall z, In z ids -> ~ In z (tgone st) -> In z (tvis st)).
  Proof.
    intros G Hc Hok. cbv zeta.
    pose proof (trun_inv ids evs _ (tinit_inv g ids G Hc) Hok) as [G' Hcur Hlt Hnd Hbeh Hcond Hseen Htodo].
    split; [exact Hnd|].
    intros En z Hz Hg. rewrite En in Htodo. destruct (Htodo None (fl_none _) z Hz Hg) as [X|X]; [destruct X|exact X].
  Qed.

  (* list order: at the moment a callback w is visited, every callback visited earlier that is still in
     the list stands before w in the list *)
  Definition precedes (ids : list nid) (v w : nid) : Prop := exists a b c, ids = a ++ v :: b ++ w :: c.

  Lemma sfrom_suffix w ids : In w ids -> exists pre, ids = pre ++ sfrom w ids /\ ~ In w pre.
  Proof.
    induction ids as [|y r IH]; intros H; [destruct H|]. cbn [sfrom].
    destruct (Nat.eqb_spec w y) as [->|Hne].
    - exists []. split; [reflexivity|intros []].
    - destruct H as [->|H]; [contradiction|]. destruct (IH H) as [pre [E N]].
      exists (y :: pre). split; [cbn [app]; rewrite <- E; reflexivity|]. intros [X|X]; [congruence|contradiction].
  Qed.

  Theorem traversal_visits_in_list_order g ids evs w nd :
    GInv g ids ->
    (forall z, In z ids -> exists nd, nth_error (heap g) z = Some nd /\ GenCL.visit_cond (ctr nd) capt = true) ->
    Forall ev_ok evs ->
    let st := trun (tinit g ids) evs in
    tph st = false -> tcur st = Some w -> nth_error (heap (tg st)) w = Some nd -> GenCL.visit_cond (ctr nd) capt = true ->
    (* w is visited by the next TVisit; all earlier visits that are still in the list come before it *)
    tvis (tstep st TVisit) = tvis st ++ [w] /\
    forall v, In v (tvis st) -> In v (tids st) -> precedes (tids st) v w.
  Proof.
    intros G Hc Hok. cbv zeta. intros Hph Hcur Hn Hv.
    pose proof (trun_inv ids evs _ (tinit_inv g ids G Hc) Hok) as [G' Hcu Hlt Hnd Hbeh Hcond Hseen Htodo].
    split; [cbn [tstep]; rewrite Hph, Hcur, Hn, Hv; reflexivity|].
    intros v Hvv Hvi.
    assert (Hl : live nd) by (apply visit_cond_live; exact Hv).
    assert (Hw : In w (tids (trun (tinit g ids) evs))) by (eapply gi_live; eauto).
    assert (Hfl : first_live (heap (tg (trun (tinit g ids) evs))) (tcur (trun (tinit g ids) evs)) (Some w)) by (rewrite Hcur; eapply fl_live; eauto).
    destruct (Hbeh _ Hfl v Hvv) as [A|[A _]]; [|congruence].
    unfold ahead in A. cbn [sfrom_o] in A.
    destruct (sfrom_suffix w _ Hw) as [pre [E Nw]].
    assert (Hvp : In v pre).
    { rewrite E in Hvi. apply in_app_or in Hvi. destruct Hvi as [X|X]; [exact X|contradiction]. }
    destruct (in_split _ _ Hvp) as [a [b Ep]].
    assert (Hs : exists c, sfrom w (tids (trun (tinit g ids) evs)) = w :: c).
    { pose proof (sfrom_self w _ Hw) as S.
      destruct (in_split _ _ Hw) as [a' [b' Ei]].
      assert (Nd := gi_nodup _ _ G'). rewrite Ei in Nd. destruct (nodup_split_notin _ _ _ Nd) as [Na _].
      exists b'. rewrite Ei. apply sfrom_split. exact Na. }
    destruct Hs as [c Es]. exists a, b, c. rewrite E at 1. rewrite Ep, Es. rewrite <- app_assoc. reflexivity.
  Qed.

  (* the same, from the invariant alone (used for the machine in CLConcProj.v) *)
  Lemma order_from_TInv ids0 st w nd :
    TInv ids0 st -> tcur st = Some w -> nth_error (heap (tg st)) w = Some nd -> GenCL.visit_cond (ctr nd) capt = true ->
    forall v, In v (tvis st) -> In v (tids st) -> v <> w -> precedes (tids st) v w.
  Proof.
    intros [G' Hcu Hlt Hnd Hbeh Hcond Hseen Htodo] Hcur Hn Hv v Hvv Hvi Hne.
    assert (Hl : live nd) by (apply visit_cond_live; exact Hv).
    assert (Hw : In w (tids st)) by (eapply gi_live; eauto).
    assert (Hfl : first_live (heap (tg st)) (tcur st) (Some w)) by (rewrite Hcur; eapply fl_live; eauto).
    destruct (Hbeh _ Hfl v Hvv) as [A|[_ A]]; [|congruence].
    unfold ahead in A. cbn [sfrom_o] in A.
    destruct (sfrom_suffix w _ Hw) as [pre [E Nw]].
    assert (Hvp : In v pre).
    { rewrite E in Hvi. apply in_app_or in Hvi. destruct Hvi as [X|X]; [exact X|contradiction]. }
    destruct (in_split _ _ Hvp) as [a [b Ep]].
    assert (Hs : exists c, sfrom w (tids st) = w :: c).
    { destruct (in_split _ _ Hw) as [a' [b' Ei]].
      assert (Nd := gi_nodup _ _ G'). rewrite Ei in Nd. destruct (nodup_split_notin _ _ _ Nd) as [Na _].
      exists b'. rewrite Ei. apply sfrom_split. exact Na. }
    destruct Hs as [c Es]. exists a, b, c. rewrite E at 1. rewrite Ep, Es. rewrite <- app_assoc. reflexivity.
  Qed.
End Trav.
