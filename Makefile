# /verif top-level: `make setup` builds the Coq development (full .vo), extracts the
# executable models and compiles the OCaml drivers. No C++ here: harnesses are rebuilt
# by every check from /repo's current working tree.
.PHONY: setup coq ocaml clean
setup: coq ocaml
coq:
	python3 tools/leafgen.py
	cd coq && coq_makefile -f _CoqProject -o Makefile.coq >/dev/null && timeout 3000 $(MAKE) -f Makefile.coq -j16
ocaml: coq
	$(MAKE) -C ocaml
clean:
	-cd coq && $(MAKE) -f Makefile.coq clean
	rm -rf ocaml/_build ocaml/gen build/*
