# /verif top-level: `make setup` builds the Coq development (full .vo build), extracts the
# executable models and compiles the OCaml drivers. No C++ here: harnesses are rebuilt
# by every check from /repo's current working tree.
.PHONY: selfcheck setup coq ocaml clean coqproject coqchk
setup: coq ocaml selfcheck

# no Axiom/Parameter/Admitted/admit, no kernel check switched off, Variables only inside sections
selfcheck:
	python3 tools/selfcheck.py

# _CoqProject lists every .v file present (dependencies are computed by coqdep)
coqproject:
	cd coq && (echo "-Q . EV"; ls gen/*.v *.v) > _CoqProject.new && \
	  (cmp -s _CoqProject.new _CoqProject || mv _CoqProject.new _CoqProject); rm -f _CoqProject.new

coq:
	mkdir -p ocaml/gen build replays
	python3 tools/leafgen.py
	$(MAKE) coqproject
	cd coq && coq_makefile -f _CoqProject -o Makefile.coq >/dev/null && timeout 3000 $(MAKE) -f Makefile.coq -j16

# independent re-check of the twenty property files and everything they depend on; prints the axioms relied on (about a minute)
coqchk: coq
	cd coq && timeout 3000 coqchk -o -silent -Q . EV $$(ls Properties_C*.v | sed 's/\.v$$//; s/^/EV./')

# Extract*.v write ocaml/gen/<domain>_model.ml(i); one driver per domain
ocaml: coq
	$(MAKE) -C ocaml

clean:
	-cd coq && $(MAKE) -f Makefile.coq clean
	rm -rf ocaml/_build ocaml/gen build/*
