"""remover_domain.py — case generator, serialiser, shrinker and correspondence loop for
ScopedRemover programs (domain `remover`: coq/RemoverModel.v, harness/remover.cpp).

A case = dict(kind='cl'|'ed'|'eq', nt=int, nk=int, main=[cmd,...]); a cmd is a list of tokens:
  rnew r t|-    radd r k id a|p|i [hb]   rremove r id   rreset r   rset r t
  rmovector s d   rmoveassign s d   rswap a b   rdestroy r
  dadd t k id a|p|i [hb]   dremove id   observe

The generator keeps a small mirror of the abstract state only to pick meaningful operands
(ids that are recorded / attached / stale, live and dead slots).  It is not an oracle: a case
the model rejects (misuse: null target, foreign `before` handle, ...) is discarded and counted.
Every generated history ends with `observe`, the destruction of all live removers and a last
`observe`; one case is emitted for EVERY order of that final destruction."""
import itertools

import vlib

KINDS = ('cl', 'ed', 'eq')
MAX_SLOTS = 4         # at most 3 live removers + room for a move construction


def case_text(cid, case):
    return 'case %s\nkind %s\nnt %d\nnk %d\nmain : %s\nend\n' % (
        cid, case['kind'], case['nt'], case['nk'], ' ; '.join(' '.join(c) for c in case['main']))


def parse_case_text(text):
    cases, cur = [], None
    for line in text.splitlines():
        ws = line.split()
        if not ws or ws[0].startswith('#'):
            continue
        if ws[0] == 'case':
            cur = {'kind': 'cl', 'nt': 1, 'nk': 1, 'main': [], 'name': ws[1]}
            cases.append(cur)
        elif cur is None:
            continue
        elif ws[0] == 'kind':
            cur['kind'] = ws[1]
        elif ws[0] == 'nt':
            cur['nt'] = int(ws[1])
        elif ws[0] == 'nk':
            cur['nk'] = int(ws[1])
        elif ws[0] == 'main':
            cur['main'] = split_cmds(ws[2:])
    return cases


def split_cmds(ws):
    out, cur = [], []
    for w in ws:
        if w == ';':
            if cur:
                out.append(cur)
            cur = []
        else:
            cur.append(w)
    if cur:
        out.append(cur)
    return out


class Gen:
    def __init__(self, rng, kind):
        self.r = rng
        self.kind = kind
        self.stats = {}

    def stat(self, k):
        self.stats[k] = self.stats.get(k, 0) + 1

    # ---- mirror
    def live(self):
        return [s for s in range(MAX_SLOTS) if self.rem[s] is not None]

    def dead(self):
        return [s for s in range(MAX_SLOTS) if self.rem[s] is None]

    def release(self, s):
        R = self.rem[s]
        if R['tgt'] is not None:
            for (k, i) in R['items']:
                if self.att.get(i) == (R['tgt'], k):
                    self.detach(i)
        R['items'] = []

    def detach(self, i):
        t, k = self.att.pop(i)
        self.order[(t, k)].remove(i)
        self.gone.append(i)

    def mode(self, t, k):
        r = self.r
        m = r.weighted([('a', 5), ('p', 3), ('i', 4)])
        if m != 'i':
            return [m]
        here = self.order.get((t, k), [])
        pick = r.below(100)
        if here and pick < 70:
            return ['i', str(r.pick(here))]
        if self.gone and pick < 85:
            self.stat('insert_before_expired')
            return ['i', str(r.pick(self.gone))]
        self.stat('insert_before_empty')
        return ['i', str(90 + r.below(5))]

    def attach(self, t, k, i, m):
        self.att[i] = (t, k)
        o = self.order.setdefault((t, k), [])
        if m[0] == 'a':
            o.append(i)
        elif m[0] == 'p':
            o.insert(0, i)
        else:
            hb = int(m[1])
            if hb in o:
                o.insert(o.index(hb), i)
            else:
                o.append(i)

    def some_id(self, s=None):
        """an id to remove: recorded here / recorded elsewhere / direct / gone / unknown"""
        r = self.r
        opts = []
        if s is not None and self.rem[s]['items']:
            opts.append(('mine', 60))
        others = [i for x in self.live() if x != s for (_, i) in self.rem[x]['items']]
        if others:
            opts.append(('other', 15))
        direct = [i for i in self.att if i not in self.via]
        if direct:
            opts.append(('direct', 15))
        if self.gone:
            opts.append(('gone', 10))
        opts.append(('unknown', 3))
        if self.att:
            opts.append(('any', 10))
        w = r.weighted(opts)
        if w == 'mine':
            return r.pick(self.rem[s]['items'])[1], w
        if w == 'other':
            return r.pick(others), w
        if w == 'direct':
            return r.pick(direct), w
        if w == 'gone':
            return r.pick(self.gone), w
        if w == 'any':
            return r.pick(sorted(self.att)), w
        return 95 + r.below(4), w

    # ---- one history
    def gen(self):
        r = self.r
        self.nt = r.range(1, 2)
        self.nk = 1 if self.kind == 'cl' else r.range(1, 3)
        self.rem = [None] * MAX_SLOTS
        self.att = {}          # id -> (t, k)
        self.order = {}        # (t, k) -> ids in order
        self.via = set()
        self.gone = []
        self.next_id = 1
        main = []
        # 1..3 removers to begin with
        for s in range(r.range(1, 3)):
            main.append(self.cmd_new(s))
        n = r.range(4, 26)
        for _ in range(n):
            c = self.cmd()
            if c is not None:
                main.append(c)
        main.append(['observe'])
        live = self.live()
        self.stat('final_live_%d' % len(live))
        cases = []
        for perm in itertools.permutations(live):
            tail = [['rdestroy', str(s)] for s in perm] + [['observe']]
            cases.append({'kind': self.kind, 'nt': self.nt, 'nk': self.nk, 'main': main + tail})
        return cases

    def cmd_new(self, s):
        r = self.r
        if r.chance(15):
            self.rem[s] = {'tgt': None, 'items': []}
            self.stat('rnew_default')
            return ['rnew', str(s), '-']
        t = r.below(self.nt)
        self.rem[s] = {'tgt': t, 'items': []}
        self.stat('rnew_target')
        return ['rnew', str(s), str(t)]

    def cmd(self):
        r = self.r
        live = self.live()
        dead = self.dead()
        opts = [('dadd', 8), ('dremove', 5), ('observe', 7)]
        if live:
            opts += [('radd', 26), ('rremove', 10), ('rreset', 3), ('rset', 5), ('rswap', 6), ('rmoveassign', 12), ('rdestroy', 4)]
            if dead and len(live) < 3:
                opts += [('rmovector', 7)]
        if dead and len(live) < 3:
            opts += [('rnew', 6 if live else 40)]
        kind = r.weighted(opts)
        if kind == 'rnew':
            return self.cmd_new(r.pick(dead))
        if kind == 'radd':
            with_t = [s for s in live if self.rem[s]['tgt'] is not None]
            if not with_t:
                s = r.pick(live)
                t = r.below(self.nt)
                self.release(s)
                self.rem[s]['tgt'] = t
                self.stat('rset')
                return ['rset', str(s), str(t)]
            s = r.pick(with_t)
            t = self.rem[s]['tgt']
            k = r.below(self.nk)
            i = self.next_id
            self.next_id += 1
            m = self.mode(t, k)
            self.attach(t, k, i, m)
            self.rem[s]['items'].append((k, i))
            self.via.add(i)
            self.stat('radd_' + m[0])
            return ['radd', str(s), str(k), str(i)] + m
        if kind == 'dadd':
            t = r.below(self.nt)
            k = r.below(self.nk)
            i = self.next_id
            self.next_id += 1
            m = self.mode(t, k)
            self.attach(t, k, i, m)
            self.stat('dadd')
            return ['dadd', str(t), str(k), str(i)] + m
        if kind == 'rremove':
            s = r.pick(live)
            i, w = self.some_id(s)
            self.stat('rremove_' + w)
            R = self.rem[s]
            if i in self.att and any(x == i for (_, x) in R['items']):
                for n_, it in enumerate(R['items']):
                    if it[1] == i:
                        del R['items'][n_]
                        break
                self.detach(i)
            return ['rremove', str(s), str(i)]
        if kind == 'dremove':
            i, w = self.some_id(None)
            self.stat('dremove_' + w)
            if i in self.att:
                self.detach(i)
            return ['dremove', str(i)]
        if kind == 'rreset':
            s = r.pick(live)
            self.release(s)
            self.stat('rreset')
            return ['rreset', str(s)]
        if kind == 'rset':
            s = r.pick(live)
            t = r.below(self.nt)
            if self.rem[s]['tgt'] != t:
                self.release(s)
                self.rem[s]['tgt'] = t
                self.stat('rset_other')
            else:
                self.stat('rset_same')
            return ['rset', str(s), str(t)]
        if kind == 'rmovector':
            s, d = r.pick(live), r.pick(dead)
            self.rem[d] = {'tgt': self.rem[s]['tgt'], 'items': self.rem[s]['items']}
            self.rem[s] = {'tgt': self.rem[s]['tgt'], 'items': []}
            self.stat('rmovector_' + ('nonempty' if self.rem[d]['items'] else 'empty'))
            return ['rmovector', str(s), str(d)]
        if kind == 'rmoveassign':
            s = r.pick(live)
            others = [x for x in live if x != s]
            if r.chance(4) or not others:
                if others or r.chance(30):
                    self.stat('rmoveassign_self')
                    return ['rmoveassign', str(s), str(s)]
                return None
            # prefer a destination that already holds listeners (the case the unit tests never build)
            full = [x for x in others if self.rem[x]['items']]
            d = r.pick(full) if full and r.chance(60) else r.pick(others)
            self.stat('rmoveassign_into_' + ('nonempty' if self.rem[d]['items'] else 'empty'))
            self.release(d)
            self.rem[d] = {'tgt': self.rem[s]['tgt'], 'items': self.rem[s]['items']}
            self.rem[s] = {'tgt': self.rem[s]['tgt'], 'items': []}
            return ['rmoveassign', str(s), str(d)]
        if kind == 'rswap':
            a, b = r.pick(live), r.pick(live)
            self.rem[a], self.rem[b] = self.rem[b], self.rem[a]
            self.stat('rswap' + ('_self' if a == b else ''))
            return ['rswap', str(a), str(b)]
        if kind == 'rdestroy':
            s = r.pick(live)
            self.release(s)
            self.rem[s] = None
            self.stat('rdestroy_mid')
            return ['rdestroy', str(s)]
        self.stat('observe')
        return ['observe']


def nontrivial(case, trace):
    """>= 2 observation lines that list a listener, and a transfer/release command in the case"""
    seen = sum(1 for l in trace if l.startswith('obs ') and len(l.split()) > 3)
    ops = set(c[0] for c in case['main'])
    return seen >= 2 and bool(ops & {'rmovector', 'rmoveassign', 'rswap', 'rreset', 'rset'}) and 'rdestroy' in ops


def trace_features(case, trace):
    f = set(['kind_' + case['kind'], 'targets_%d' % case['nt']])
    for c in case['main']:
        if c[0] in ('rmovector', 'rmoveassign', 'rswap', 'rreset', 'rset', 'rdestroy', 'dremove', 'rremove'):
            f.add(c[0])
        if c[0] == 'rmoveassign' and c[1] == c[2]:
            f.add('self_moveassign')
    if 'ret 0' in trace:
        f.add('ret0')
    if 'ret 1' in trace:
        f.add('ret1')
    return f


def orphans(case, trace):
    """the property's direct oracle on a trace: listeners added through removers that still ran
    in the observations made after the last remover was destroyed (slots tracked syntactically)"""
    via = set(c[3] for c in case['main'] if c[0] == 'radd')
    live = set()
    obs_blocks = []     # (index of observe among observes, all_dead?)
    for c in case['main']:
        if c[0] == 'rnew':
            live.add(c[1])
        elif c[0] == 'rmovector':
            live.add(c[2])
        elif c[0] == 'rdestroy':
            live.discard(c[1])
        elif c[0] == 'observe':
            obs_blocks.append(not live)
    per = case['nt'] * case['nk']
    lines = [l for l in trace if l.startswith('obs ')]
    out = set()
    for n, dead in enumerate(obs_blocks):
        if dead:
            for l in lines[n * per:(n + 1) * per]:
                out |= set(l.split()[3:]) & via
    return sorted(out, key=int)


def shrink(case, still_fails, max_tests=300):
    tests = [0]

    def ok(c):
        tests[0] += 1
        if tests[0] > max_tests:
            return False
        try:
            return still_fails(c)
        except Exception:
            return False

    cur = dict(case)
    cur['main'] = list(case['main'])
    changed = True
    while changed and tests[0] <= max_tests:
        changed = False
        size = max(1, len(cur['main']) // 2)
        while size >= 1:
            i = 0
            while i < len(cur['main']):
                cand = dict(cur)
                cand['main'] = cur['main'][:i] + cur['main'][i + size:]
                if cand['main'] and ok(cand):
                    cur = cand
                    changed = True
                else:
                    i += size
            size //= 2
        # smaller shape: one target, one key, simplest kind
        for key, val in (('nt', 1), ('nk', 1)):
            if cur[key] > val:
                cand = dict(cur)
                cand[key] = val
                if ok(cand):
                    cur = cand
                    changed = True
        # append instead of prepend/insert
        for n, c in enumerate(cur['main']):
            if c[0] in ('radd', 'dadd') and c[4] != 'a':
                cand = dict(cur)
                cand['main'] = cur['main'][:n] + [c[:4] + ['a']] + cur['main'][n + 1:]
                if ok(cand):
                    cur = cand
                    changed = True
    return cur


def keep_impl(l):
    return True


def correspond(ctx, binaries, cases, model_domain='remover', what='ScopedRemover', also_legal_in=None):
    """runs the extracted model and the implementation(s) on the cases, compares per case.
    A disagreement is shrunk and reported as a violation; the replay holds the case and the
    model / proved-model / implementation traces."""
    ids = [str(i) for i in range(len(cases))]
    texts = {i: case_text(i, cases[int(i)]) for i in ids}
    model = vlib.run_model(model_domain, ''.join(texts[i] for i in ids), driver='remover')
    usable = [i for i in ids if 'error' not in model.get(i, ['error'])]
    if also_legal_in:
        # fallback oracle: keep only the cases that are also within the contract of the model of the
        # header as it is now, so that the real code is never driven into undefined behaviour
        other = vlib.run_model(also_legal_in, ''.join(texts[i] for i in usable), driver='remover')
        usable = [i for i in usable if 'error' not in other.get(i, ['error'])]
    stats = {'generated': len(cases), 'model_error_discarded': len(ids) - len(usable), 'compared': 0, 'disagreements': 0}
    feats, distinct = {}, set()
    for i in usable:
        tr = model[i]
        if nontrivial(cases[int(i)], tr):
            distinct.add(texts[i].split('\n', 1)[1])
        for f in trace_features(cases[int(i)], tr):
            feats[f] = feats.get(f, 0) + 1
    stats['distinct_nontrivial'] = len(distinct)
    stats['features'] = feats
    reported = 0
    seen_small = set()
    for bname, binary in binaries.items():
        impl = vlib.run_impl(binary, texts, usable)
        if '__exit__' in impl:
            ctx.violation(''.join(texts[i] for i in usable[:50]),
                          '%s: harness %s: %s at process exit (not attributable to one case)' % (what, bname, impl['__exit__'][0]))
            reported += 1
        for i in usable:
            stats['compared'] += 1
            a = model[i]
            b = impl.get(i, ['<missing>'])
            if a == b:
                continue
            stats['disagreements'] += 1
            if reported >= 3:
                continue
            reported += 1

            def still(c, binary=binary):
                t = case_text('0', c)
                m = vlib.run_model(model_domain, t, driver='remover').get('0', ['error'])
                if 'error' in m:
                    return False
                if also_legal_in and 'error' in vlib.run_model(also_legal_in, t, driver='remover').get('0', ['error']):
                    return False
                im = vlib.run_impl(binary, {'0': t}, ['0'], timeout=60).get('0', ['<missing>'])
                return m != im
            small = shrink(cases[int(i)], still)
            t = case_text('0', small)
            if (bname, t) in seen_small:      # several inputs shrink to the same minimal case
                reported -= 1
                continue
            seen_small.add((bname, t))
            m = vlib.run_model(model_domain, t, driver='remover').get('0', [])
            sp = vlib.run_model('remover-spec', t, driver='remover').get('0', [])
            im = vlib.run_impl(binary, {'0': t}, ['0'], timeout=60).get('0', [])
            d = vlib.first_diff(m, im)
            orp = orphans(small, im)
            replay = t + '# harness: %s\n# model (%s): %s\n# proved model (move assignment releases first): %s\n# impl    : %s\n' % (
                bname, model_domain, ' | '.join(m), ' | '.join(sp), ' | '.join(im))
            msg = '%s: implementation (%s, kind %s) differs from the model at trace line %s: model `%s`, implementation `%s`' % (
                what, bname, small['kind'], d[0] if d else '?', d[1] if d else '?', d[2] if d else '?')
            if orp:
                msg += '; listener(s) %s added through a remover still run after every remover was destroyed' % ','.join(orp)
                replay += '# orphaned listeners (ran with no remover alive): %s\n' % ' '.join(orp)
            ctx.violation(replay, msg)
    return stats, model, texts, usable


def replay_file(ctx, path, binaries):
    """re-runs the case(s) of a replay or corpus file: the model of the header as tie A reads it
    now, the model the theorems are proved for, and the implementation.  A case counts as a
    disagreement when the implementation differs from the proved model."""
    cases = parse_case_text(open(path).read())
    bad = 0
    for k, case in enumerate(cases):
        t = case_text(str(k), case)
        m = vlib.run_model('remover', t, driver='remover').get(str(k), ['error'])
        sp = vlib.run_model('remover-spec', t, driver='remover').get(str(k), ['error'])
        print('case %s' % case.get('name', k))
        print('model (header as read now): ' + ' | '.join(m))
        print('model (proved)            : ' + ' | '.join(sp))
        for bname, binary in binaries.items():
            im = vlib.run_impl(binary, {str(k): t}, [str(k)], timeout=120).get(str(k), ['<missing>'])
            print('impl %s: %s' % (bname, ' | '.join(im)))
            if 'error' not in sp and sp != im:
                bad += 1
                orp = orphans(case, im)
                if orp:
                    print('orphaned listeners (ran with no remover alive): ' + ' '.join(orp))
    return bad
