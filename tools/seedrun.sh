#!/bin/bash
# seedrun.sh <name under /verif/seeded> <check ids...>
# re-runs checks (quick) against an already confirmed seeded change: fresh scratch worktree of /repo HEAD,
# patch applied there, VERIF_REPO pointing at it; results appended to seeded/<name>/meta.json ("rechecks").
set -u
NAME=$1; shift
D=/verif/seeded/$NAME
WT=/tmp/seedrun_$$
rm -rf "$WT"; git -C /repo worktree add -q "$WT" HEAD || exit 2
trap 'git -C /repo worktree remove --force "$WT" 2>/dev/null' EXIT
if ! git -C "$WT" apply "$D/patch.diff"; then echo "SEEDRUN $NAME: patch does not apply"; exit 2; fi
RES=""
for id in "$@"; do
  OUTF="$D/check_$id.log"
  ( cd /verif && VERIF_REPO="$WT" timeout 1500 python3 tools/check.py "$id" quick > "$OUTF" 2>&1 ); rc=$?
  V=$(grep -c "^VIOLATION" "$OUTF")
  RES="$RES $id:rc=$rc,violations=$V"
done
echo "SEEDRUN $NAME: checks:$RES"
python3 - "$D" "$RES" <<'PY'
import json, sys, os
d, res = sys.argv[1:3]
p = os.path.join(d, 'meta.json')
m = json.load(open(p))
m.setdefault('rechecks', []).extend(res.split())
json.dump(m, open(p, 'w'), indent=1)
PY
# the private build areas of the experiments are not kept
python3 -c "import hashlib,shutil,sys; shutil.rmtree('/verif/build/exp_'+hashlib.sha256(sys.argv[1].encode()).hexdigest()[:10], ignore_errors=True)" "$WT"
