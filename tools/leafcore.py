#!/usr/bin/env python3
"""leafcore.py — helpers of tie A (see leafgen.py).

leafgen.py — tie A: regenerate coq/gen/*.v from /repo's working tree.

For a fixed list of small leaf constructs of the headers (boolean conditions,
tiny bodies, structural facts) the clang AST (clang++ -Xclang -ast-dump=json) is
translated to Gallina.  The hand-written models IMPORT these definitions for
exactly those decisions, so the theorems are re-checked against what the headers
say now.  A construct outside the supported subset is not guessed: the leaf is
reported as failed, nothing is written for it, and the dependent .vo fails.

usage: leafgen.py [--json]     (writes only files whose content changed)"""
import hashlib
import json
import os
import re
import subprocess
import sys

ROOT = '/verif'
REPO = os.environ.get('VERIF_REPO', '/repo')   # experiments may point the checks at a scratch copy of the repository


def work_root():
    """where the Coq project and the OCaml drivers are built.  For /repo itself: /verif (coq/, ocaml/).
    For an experiment against a modified copy (VERIF_REPO=<dir>): a private copy under /verif/build/exp_<hash>, so that
    regenerated leaves, rebuilt proofs and drivers of an experiment never mix with the real tree's (or another experiment's);
    VERIF_EXP_TAG=<text> separates several experiments that run at once against the same copy."""
    if REPO == '/repo':
        return ROOT
    import hashlib
    w = os.path.join(ROOT, 'build', 'exp_' + hashlib.sha256((os.path.abspath(REPO) + os.environ.get('VERIF_EXP_TAG', '')).encode()).hexdigest()[:10])
    if not os.environ.get('VERIF_WORK_SYNCED') == w:
        os.makedirs(w, exist_ok=True)
        for d in ('coq', 'ocaml'):
            subprocess.run(['rsync', '-a', os.path.join(ROOT, d) + '/', os.path.join(w, d) + '/'], check=True)
        os.environ['VERIF_WORK_SYNCED'] = w          # child processes (leafgen.py) do not sync again
    return w


WORK = work_root()
GEN = os.path.join(WORK, 'coq', 'gen')
INC = os.path.join(REPO, 'include')


class Untranslatable(Exception):
    pass


def clang_ast(tu_text, filt, std='c++17'):
    """returns the list of JSON trees clang dumps for declarations matching the filter"""
    os.makedirs(os.path.join(ROOT, 'build'), exist_ok=True)
    tu = os.path.join(ROOT, 'build', 'leafgen_tu_%d.cpp' % os.getpid())
    with open(tu, 'w') as fh:
        fh.write(tu_text)
    try:
        p = subprocess.run(['clang++', '-std=' + std, '-I' + INC, '-fsyntax-only', '-Xclang', '-ast-dump=json',
                            '-Xclang', '-ast-dump-filter=' + filt, tu],
                           stdout=subprocess.PIPE, stderr=subprocess.PIPE, universal_newlines=True, timeout=300)
    finally:
        try:
            os.unlink(tu)
        except OSError:
            pass
    if p.returncode != 0:
        raise Untranslatable('clang failed on filter %s: %s' % (filt, p.stderr[-400:]))
    out = p.stdout
    trees = []
    dec = json.JSONDecoder()
    i = 0
    while True:
        j = out.find('{', i)
        if j < 0:
            break
        # skip "Dumping xxx:" lines
        try:
            obj, end = dec.raw_decode(out, j)
        except ValueError:
            break
        trees.append(obj)
        i = end
    return trees


def walk(n):
    yield n
    for c in n.get('inner', []) or []:
        if isinstance(c, dict):
            yield from walk(c)


def strip(n):
    """skip wrappers that do not change the value"""
    while n.get('kind') in ('ImplicitCastExpr', 'ParenExpr', 'ExprWithCleanups', 'MaterializeTemporaryExpr',
                            'CXXBindTemporaryExpr', 'ConstantExpr', 'CXXFunctionalCastExpr', 'CXXStaticCastExpr',
                            'SubstNonTypeTemplateParmExpr'):
        inner = [c for c in n.get('inner', []) if isinstance(c, dict)]
        if len(inner) != 1:
            break
        n = inner[0]
    return n


def kids(n):
    return [c for c in n.get('inner', []) or [] if isinstance(c, dict) and c.get('kind')]


def find_function(trees, name, pred=None):
    """first function/method declaration named `name` that has a body"""
    for t in trees:
        for n in walk(t):
            if n.get('kind') in ('CXXMethodDecl', 'FunctionDecl', 'CXXConstructorDecl', 'CXXDestructorDecl') and n.get('name') == name:
                body = [c for c in kids(n) if c.get('kind') == 'CompoundStmt']
                if body and (pred is None or pred(n)):
                    return n, body[0]
    raise Untranslatable('function %s not found' % name)


# ----------------------------------------------------------------------------------------
# expression translation: atoms are named by a caller-supplied function

BINOPS = {'&&': 'andb', '||': 'orb'}
CMPOPS = {'==': ('N.eqb', False), '!=': ('N.eqb', True), '<': ('N.ltb', False), '<=': ('N.leb', False),
          '>': ('N.ltb', 'swap'), '>=': ('N.leb', 'swap')}


class Tr:
    def __init__(self, atom, cmp_scope='N'):
        self.atom = atom          # node -> Gallina term or None
        self.scope = cmp_scope

    def expr(self, n):
        n = strip(n)
        a = self.atom(n)
        if a is not None:
            return a
        k = n.get('kind')
        if k == 'BinaryOperator' or (k == 'CXXOperatorCallExpr' and len(kids(n)) == 3):
            if k == 'BinaryOperator':
                op = n.get('opcode')
                l, r = kids(n)
            else:
                cs = kids(n)
                fn = strip(cs[0])
                m = re.match(r'operator(.+)', fn.get('referencedDecl', {}).get('name', ''))
                if not m:
                    raise Untranslatable('operator call without name')
                op = m.group(1)
                l, r = cs[1], cs[2]
            if op in BINOPS:
                return '(%s %s %s)' % (BINOPS[op], self.expr(l), self.expr(r))
            if op in CMPOPS:
                f, mode = CMPOPS[op]
                f = f.replace('N.', self.scope + '.')
                le, re_ = self.expr(l), self.expr(r)
                if mode == 'swap':
                    return '(%s %s %s)' % (f, re_, le)
                if mode is True:
                    return '(negb (%s %s %s))' % (f, le, re_)
                return '(%s %s %s)' % (f, le, re_)
            raise Untranslatable('binary operator %s' % op)
        if k == 'UnaryOperator' and n.get('opcode') == '!':
            return '(negb %s)' % self.expr(kids(n)[0])
        if k == 'IntegerLiteral':
            return '%s%%%s' % (n.get('value'), self.scope)
        if k == 'CXXBoolLiteralExpr':
            return 'true' if n.get('value') else 'false'
        raise Untranslatable('expression kind %s' % k)


def member_name(n):
    n = strip(n)
    if n.get('kind') == 'MemberExpr':
        return n.get('name')
    if n.get('kind') == 'CXXDependentScopeMemberExpr':
        return n.get('member')
    if n.get('kind') == 'DeclRefExpr':
        return n.get('referencedDecl', {}).get('name')
    return None


def find_all(n, kind):
    return [x for x in walk(n) if x.get('kind') == kind]




def stmts_to_expr(tr, stmts):
    """statement lists made of `if (c) S [else S]` and `return e` -> one Gallina boolean expression.
    tr: a Tr for the conditions and returned expressions"""
    if not stmts:
        raise Untranslatable('control reaches the end without return')
    s = stmts[0]
    rest = stmts[1:]
    k = s.get('kind')
    if k == 'CompoundStmt':
        return stmts_to_expr(tr, kids(s) + rest)
    if k == 'NullStmt':
        # `;` left by a macro that expands to nothing (the guarded verification marker EVENTPP_VERIF_POINT)
        return stmts_to_expr(tr, rest)
    if k == 'ReturnStmt':
        ks = kids(s)
        if len(ks) != 1:
            raise Untranslatable('return without value')
        return tr.expr(ks[0])
    if k == 'IfStmt':
        ks = kids(s)
        cond = tr.expr(ks[0])
        then = stmts_to_expr(tr, [ks[1]] + rest)
        els = stmts_to_expr(tr, ([ks[2]] if len(ks) > 2 else []) + rest)
        return '(if %s then %s else %s)' % (cond, then, els)
    raise Untranslatable('statement kind %s' % k)


def call_name(n):
    """name of the callee of a (member) call expression, or None"""
    n = strip(n)
    if n.get('kind') in ('CXXMemberCallExpr', 'CallExpr', 'CXXOperatorCallExpr'):
        ks = kids(n)
        if ks:
            c = strip(ks[0])
            return member_name(c)
    return None


def reads_in_order(n, names):
    """left-to-right order in which the named members / callees occur in an expression tree"""
    out = []
    for x in walk(n):
        nm = member_name(x)
        if nm in names and (not out or out[-1] != nm):
            out.append(nm)
    return out


# ----------------------------------------------------------------------------------------
# path conditions: under which condition (over the branch tests made so far) is a statement reached?
# Formulas: ('true',) ('false',) ('atom', key) ('not', f) ('and', f, g) ('or', f, g).
# `classify(expr)` maps a test to a formula or None (None: an opaque atom named by its source range).

def _atom_key(n):
    r = n.get('range', {})
    b = r.get('begin', {})
    e = r.get('end', {})
    return 'x%s_%s' % (b.get('offset', b.get('expansionLoc', {}).get('offset', id(n))), e.get('offset', e.get('expansionLoc', {}).get('offset', '')))


def cond_formula(n, classify):
    n = strip(n)
    f = classify(n)
    if f is not None:
        return f
    k = n.get('kind')
    if k == 'UnaryOperator' and n.get('opcode') == '!':
        return ('not', cond_formula(kids(n)[0], classify))
    if k == 'BinaryOperator' and n.get('opcode') in ('&&', '||'):
        a, b = kids(n)
        return ('and' if n.get('opcode') == '&&' else 'or', cond_formula(a, classify), cond_formula(b, classify))
    if k == 'CXXBoolLiteralExpr':
        return ('true',) if n.get('value') else ('false',)
    if k in ('CXXMemberCallExpr', 'CXXOperatorCallExpr') and len(kids(n)) >= 1:
        # `explicit operator bool` of a smart pointer and the like: the truth of the object it is called on
        c = kids(n)
        callee = strip(c[0])
        if callee.get('kind') == 'MemberExpr' and (callee.get('name') or '').startswith('operator bool') and len(kids(callee)) == 1:
            return cond_formula(kids(callee)[0], classify)
    if k == 'DeclRefExpr':
        did = (n.get('referencedDecl') or {}).get('id')
        if did in _NAMED_TESTS:
            # a test named in a `const bool` local: its value is the initialiser's (evaluated where the local is declared;
            # the atoms are reads of locals and of node fields under the mutex, as for every test)
            return cond_formula(_NAMED_TESTS[did], classify)
        return ('atom', 'v_' + str(did if did is not None else _atom_key(n)))
    return ('atom', _atom_key(n))


_NAMED_TESTS = {}


def _collect_named_tests(body):
    """{decl id: initialiser} of the `const bool` locals of a function body"""
    out = {}
    written = set()
    for x in walk(body):
        if x.get('kind') in ('BinaryOperator', 'CompoundAssignOperator') and (x.get('opcode') or '').endswith('=') and x.get('opcode') not in ('==', '!=', '<=', '>='):
            lhs = strip(kids(x)[0]) if kids(x) else {}
            if lhs.get('kind') == 'DeclRefExpr':
                written.add((lhs.get('referencedDecl') or {}).get('id'))
    for v in walk(body):
        if v.get('kind') == 'VarDecl' and (v.get('type') or {}).get('qualType') in ('const bool', 'bool') and kids(v) and v.get('id') not in written:
            out[v.get('id')] = kids(v)[-1]
    return out


def _atoms(f, acc):
    if f[0] == 'atom':
        acc.add(f[1])
    for g in f[1:]:
        if isinstance(g, tuple):
            _atoms(g, acc)
    return acc


def _ev(f, env):
    t = f[0]
    if t == 'true':
        return True
    if t == 'false':
        return False
    if t == 'atom':
        return env[f[1]]
    if t == 'not':
        return not _ev(f[1], env)
    if t == 'and':
        return _ev(f[1], env) and _ev(f[2], env)
    return _ev(f[1], env) or _ev(f[2], env)


def implies(pc, goal):
    """pc => goal for every truth assignment of the atoms (at most 12 atoms)"""
    import itertools
    at = sorted(_atoms(pc, _atoms(goal, set())))
    if len(at) > 12:
        raise Untranslatable('path condition with more than 12 atoms')
    for vals in itertools.product((False, True), repeat=len(at)):
        env = dict(zip(at, vals))
        if _ev(pc, env) and not _ev(goal, env):
            return False
    return True


def always_leaves(s):
    """does control never fall out of the end of statement s (return / throw on every path)?"""
    k = s.get('kind')
    if k in ('ReturnStmt', 'CXXThrowExpr'):
        return True
    if k == 'ExprWithCleanups':
        return any(always_leaves(c) for c in kids(s)[:1])
    if k == 'CompoundStmt':
        return any(always_leaves(c) for c in kids(s))
    if k == 'IfStmt':
        c = kids(s)
        return len(c) == 3 and always_leaves(c[1]) and always_leaves(c[2])
    return False


def reached_under(body, classify, is_target):
    """[(target node, path condition)] for every node n below `body` with is_target(n); the path condition is over the
    tests of the enclosing and of the preceding early-leaving `if`s.  Loops: the body is reached under the loop test, the
    code behind the loop under the path condition in front of it (the negated test is not used).  Tests are assumed free
    of side effects on the atoms (they are reads of locals and of node fields under the mutex)."""
    out = []
    _NAMED_TESTS.clear()
    _NAMED_TESTS.update(_collect_named_tests(body))

    def expr_targets(e, pc):
        """targets inside an expression; the right operand of && / || and the arms of ?: are reached conditionally"""
        if not isinstance(e, dict):
            return
        if is_target(e):
            out.append((e, pc))
        k = e.get('kind')
        if k == 'LambdaExpr':
            return
        c = kids(e)
        if k == 'BinaryOperator' and e.get('opcode') in ('&&', '||') and len(c) == 2:
            f = cond_formula(c[0], classify)
            expr_targets(c[0], pc)
            expr_targets(c[1], ('and', pc, f if e.get('opcode') == '&&' else ('not', f)))
            return
        if k == 'ConditionalOperator' and len(c) == 3:
            f = cond_formula(c[0], classify)
            expr_targets(c[0], pc)
            expr_targets(c[1], ('and', pc, f))
            expr_targets(c[2], ('and', pc, ('not', f)))
            return
        for x in c:
            expr_targets(x, pc)

    def stmt(s, pc):
        """returns the path condition behind s"""
        k = s.get('kind')
        if k == 'CompoundStmt':
            for c in kids(s):
                pc = stmt(c, pc)
            return pc
        if k == 'IfStmt':
            c = kids(s)
            if s.get('hasInit') or s.get('hasVar'):
                raise Untranslatable('if with an init-statement or a condition variable')
            f = cond_formula(c[0], classify)
            expr_targets(c[0], pc)
            then_pc = ('and', pc, f)
            else_pc = ('and', pc, ('not', f))
            stmt(c[1], then_pc)
            if len(c) == 3:
                stmt(c[2], else_pc)
            t_leaves = always_leaves(c[1])
            e_leaves = len(c) == 3 and always_leaves(c[2])
            if t_leaves and e_leaves:
                return ('false',)
            if t_leaves:
                return else_pc
            if e_leaves:
                return then_pc
            return pc
        if k in ('WhileStmt', 'ForStmt', 'DoStmt', 'CXXForRangeStmt'):
            c = kids(s)
            if k == 'WhileStmt':
                f = cond_formula(c[0], classify)
                expr_targets(c[0], pc)
                stmt(c[-1], ('and', pc, f))
            else:
                for x in c:
                    if x.get('kind') in ('CompoundStmt', 'IfStmt', 'ReturnStmt', 'WhileStmt', 'ForStmt'):
                        stmt(x, pc)
                    else:
                        expr_targets(x, pc)
            return pc
        if k == 'ReturnStmt':
            if is_target(s):
                out.append((s, pc))
            for c in kids(s):
                expr_targets(c, pc)
            return ('false',)
        if k in ('SwitchStmt', 'GotoStmt', 'LabelStmt', 'CXXTryStmt', 'BreakStmt', 'ContinueStmt'):
            if any(is_target(x) for x in walk(s)) or k != 'CXXTryStmt':
                raise Untranslatable('control flow this analysis does not follow (%s)' % k)
        if k in ('DeclStmt', 'NullStmt') or not kids(s):
            if is_target(s):
                out.append((s, pc))
            for c in kids(s):
                expr_targets(c, pc)
        else:
            expr_targets(s, pc)
        return pc

    stmt(body, ('true',))
    return out
