#!/usr/bin/env python3
"""No axioms declared, nothing admitted, no kernel check switched off — anywhere in /verif/coq.
Comments are removed first; Variable/Hypothesis/Context are only allowed inside a Section."""
import os
import re
import sys

ROOT = os.path.join(os.path.dirname(os.path.abspath(__file__)), '..', 'coq')
BAD = re.compile(r'\b(Admitted|admit|Axiom|Axioms|Parameter|Parameters|Conjecture|Conjectures|Admit\s+Obligations|bypass_check)\b'
                 r'|Unset\s+Guard\s+Checking|Unset\s+Positivity\s+Checking|Unset\s+Universe\s+Checking|type-in-type|impredicative-set')


def strip_comments(s):
    out, depth, i = [], 0, 0
    while i < len(s):
        if s.startswith('(*', i):
            depth += 1
            i += 2
        elif s.startswith('*)', i) and depth:
            depth -= 1
            i += 2
        else:
            if depth == 0:
                out.append(s[i])
            elif s[i] == '\n':
                out.append('\n')
            i += 1
    return ''.join(out)


problems = []
files = []
for d, _, fs in os.walk(ROOT):
    files += [os.path.join(d, f) for f in fs if f.endswith('.v')]
for f in sorted(files):
    src = strip_comments(open(f).read())
    depth = 0
    for ln, line in enumerate(src.split('\n'), 1):
        if BAD.search(line):
            problems.append('%s:%d: %s' % (f, ln, line.strip()[:120]))
        if re.match(r'\s*(Section|Module\s+Type)\b', line):
            depth += 1 if line.strip().startswith('Section') else 0
        if re.match(r'\s*End\s+\w+\s*\.', line) and depth:
            depth -= 1
        if re.match(r'\s*(Variable|Variables|Hypothesis|Hypotheses|Context)\b', line) and depth == 0:
            problems.append('%s:%d: %s outside a section' % (f, ln, line.strip()[:80]))
for f in ('_CoqProject',):
    p = os.path.join(ROOT, f)
    if os.path.exists(p) and re.search(r'type-in-type|impredicative-set|-vos|-vok', open(p).read()):
        problems.append('%s: forbidden option' % p)
if problems:
    print('\n'.join(problems))
    sys.exit(1)
print('selfcheck: %d Coq files, no axiom/admit/kernel-option found' % len(files))
