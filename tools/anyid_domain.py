"""anyid_domain.py — case generator, serialiser, shrinker, direct property oracle and correspondence
loop for AnyId cases (domain `anyid`: coq/AnyIdModel.v, ocaml/driver_anyid.ml, harness/anyid.cpp).

A case = dict(storage='val'|'empty', ids=[(tag, n), ...], listen=[i, ...], dispatch=[i, ...]).
Source values: tag 0 int, 1 std::string, 2 long, 3 Name; n >= 0.  The harness digester has a 3-bit
range (digest3 below == coq/AnyIdModel.v digest3 == harness/anyid.cpp digest3); the harness Storage
keeps (tag mod 2, n).
"""
import os
import subprocess
import time

import vlib

LAWS = ['eq_refl', 'eq_sym', 'eq_trans', 'lt_irrefl', 'lt_trans', 'incomp_trans', 'incomp_is_eq', 'hash_compat']
KINDS = ['default', 'map', 'umap']


def salt(tag, n):
    if tag == 0:
        return 0
    if tag == 1:
        return 3
    if tag == 2:
        return 2 * (n % 2)
    return 3 + 4 * (n % 2)


def digest3(tag, n):
    return (n * 5 + n // 8 + salt(tag, n)) % 8


def stored(tag, n):
    return (tag % 2, n)


def case_text(cid, case):
    out = ['case %s' % cid, 'storage %s' % case['storage'],
           'ids : ' + ' ; '.join('%d %d' % (t, n) for t, n in case['ids']),
           'listen : ' + ' '.join(str(i) for i in case['listen']),
           'dispatch : ' + ' '.join(str(i) for i in case['dispatch']),
           'end']
    return '\n'.join(out) + '\n'


def parse_case_text(text):
    cases = []
    cur = None
    for line in text.splitlines():
        ws = line.split()
        if not ws or ws[0].startswith('#'):
            continue
        if ws[0] == 'case':
            cur = {'storage': 'val', 'ids': [], 'listen': [], 'dispatch': [], 'name': ws[1]}
            cases.append(cur)
        elif cur is None:
            continue
        elif ws[0] == 'storage':
            cur['storage'] = ws[1]
        elif ws[0] == 'ids':
            toks = [w for w in ws[2:] if w != ';']
            cur['ids'] = [(int(toks[k]), int(toks[k + 1])) for k in range(0, len(toks) - 1, 2)]
        elif ws[0] == 'listen':
            cur['listen'] = [int(w) for w in ws[2:]]
        elif ws[0] == 'dispatch':
            cur['dispatch'] = [int(w) for w in ws[2:]]
    return cases


class Gen:
    """ids are drawn from a small pool of n values biased towards a few digest classes, so that
    equal values, equal stored values under different tags, and colliding digests are all frequent"""

    def __init__(self, rng, max_ids=40):
        self.r = rng
        self.max_ids = max_ids
        self.stats = {}

    def stat(self, k, v=1):
        self.stats[k] = self.stats.get(k, 0) + v

    def gen(self):
        r = self.r
        storage = 'val' if r.chance(60) else 'empty'
        self.stat('storage_' + storage)
        nid = r.range(2, self.max_ids) if r.chance(80) else r.range(2, 8)
        targets = [r.below(8) for _ in range(r.range(1, 3))]
        pool = []
        psize = r.range(2, 12)
        guard = 0
        while len(pool) < psize and guard < 400:
            guard += 1
            n = r.below(64) if r.chance(85) else r.below(1000000)
            if r.chance(85):
                if not any(digest3(t, n) in targets for t in range(4)):
                    continue
            pool.append(n)
        if not pool:
            pool = [r.below(64)]
        ids = []
        for _ in range(nid):
            n = r.pick(pool)
            if r.chance(75):
                good = [t for t in range(4) if digest3(t, n) in targets]
                tag = r.pick(good) if good else r.below(4)
            else:
                tag = r.below(4)
            ids.append((tag, n))
        nl = r.range(0, 30)
        listen = [r.below(nid) for _ in range(nl)]
        if r.chance(75):
            dispatch = list(range(nid))
        else:
            dispatch = [r.below(nid) for _ in range(r.range(1, nid))]
        self.stat('ids', nid)
        self.stat('listeners', nl)
        self.stat('dispatches', len(dispatch))
        return {'storage': storage, 'ids': ids, 'listen': listen, 'dispatch': dispatch}


def pair_stats(case):
    """(pairs i<j, pairs with distinct source and equal digest, pairs with different tag and equal id expected)"""
    ids = case['ids']
    tot = coll = cross = 0
    for i in range(len(ids)):
        for j in range(i + 1, len(ids)):
            tot += 1
            a, b = ids[i], ids[j]
            if a != b and digest3(*a) == digest3(*b):
                coll += 1
            if a[0] != b[0] and digest3(*a) == digest3(*b) and stored(*a) == stored(*b):
                cross += 1
    return tot, coll, cross


# ---------------------------------------------------------------------------------------------
# implementation runner: like vlib.run_impl, but a hang is attributed to the case that was running
# (the harness flushes after every `case` and `end` line) and the total cost of hangs is bounded —
# with a broken operator< the std::map inside the dispatcher has undefined behaviour

def run_impl(ctx, binary, case_texts, ids, per_batch=20.0, per_case=0.02, max_restarts=12):
    res = {}
    pending = list(ids)
    restarts = 0
    scratch = os.path.join(ctx.builddir, 'anyid_impl_%d' % os.getpid())
    while pending:
        if restarts > max_restarts:
            for c in pending:
                res[c] = ['<skipped>']
            break
        restarts += 1
        text = ''.join(case_texts[i] for i in pending)
        with open(scratch + '.in', 'w') as fh:
            fh.write(text)
        hung = False
        with open(scratch + '.in') as fin, open(scratch + '.out', 'w') as fout, open(scratch + '.err', 'w') as ferr:
            p = subprocess.Popen([binary], stdin=fin, stdout=fout, stderr=ferr, env=vlib.SAN_ENV)
            try:
                rc = p.wait(timeout=per_batch + per_case * len(pending))
            except subprocess.TimeoutExpired:
                p.kill()
                p.wait()
                hung = True
                rc = -9
        out = open(scratch + '.out', errors='replace').read()
        err = open(scratch + '.err', errors='replace').read()
        cases, order = vlib.parse_traces(out)
        done = [c for c in order if cases[c] and cases[c][-1] == 'end']
        for c in done:
            res[c] = cases[c]
        if rc == 0 and len(done) == len(pending):
            break
        bad = None
        for c in pending:
            if c not in done:
                bad = c
                break
        if bad is None:
            res['__exit__'] = ['CRASH ' + (vlib.sanitizer_summary(err) or 'exit status %d' % rc)]
            break
        why = 'HANG' if hung else 'CRASH ' + (vlib.sanitizer_summary(err) or 'exit status %d' % rc)
        res[bad] = cases.get(bad, []) + [why]
        pending = pending[pending.index(bad) + 1:]
    for f in ('.in', '.out', '.err'):
        try:
            os.unlink(scratch + f)
        except OSError:
            pass
    return res


# ---------------------------------------------------------------------------------------------
# the property's direct oracle: reads only the IMPLEMENTATION's trace and the case

def parse_trace(lines):
    t = {'dig': None, 'eq': {}, 'lt': {}, 'hh': {}, 'law': {}, 'run': {}, 'defaultmap': None, 'other': []}
    for l in lines:
        ws = l.split()
        if not ws:
            continue
        if ws[0] == 'dig':
            t['dig'] = [int(x) for x in ws[1:]]
        elif ws[0] in ('eq', 'lt', 'hh') and len(ws) >= 3:
            t[ws[0]][int(ws[1])] = [c == '1' for c in (ws[3] if len(ws) > 3 else '')]
        elif ws[0] == 'law':
            t['law'][ws[1]] = ' '.join(ws[2:])
        elif ws[0] == 'run':
            t['run'].setdefault(ws[1], []).append((int(ws[2]), [int(x) for x in ws[4:]]))
        elif ws[0] == 'defaultmap':
            t['defaultmap'] = ws[1]
        elif ws[0] in ('storage', 'end'):
            pass
        else:
            t['other'].append(l)
    return t


def oracle(case, lines):
    """returns a list of property violations read off the implementation's trace (empty = the
    property holds on this case): the equivalence / strict-weak-order / incomparability / hash laws
    on all pairs and triples, `distinct values stay distinct` (value storage), `equal iff digests equal`
    (empty storage), and `a dispatch reaches exactly the listeners registered under == ids` for the
    three dispatchers."""
    bad = []
    if lines == ['<skipped>']:
        return []
    died = [l for l in lines if l.startswith('CRASH') or l.startswith('HANG') or l == '<missing>']
    lines = [l for l in lines if l not in died]
    t = parse_trace(lines)
    ids = case['ids']
    n = len(ids)
    if t['other']:
        return ['unexpected line: ' + t['other'][0]]
    if t['dig'] is None or len(t['dig']) != n or any(len(t[m]) != n or any(len(r) != n for r in t[m].values()) for m in ('eq', 'lt', 'hh')):
        return ['implementation died: ' + died[0]] if died else ['incomplete trace']
    eq, lt, hh, dig = t['eq'], t['lt'], t['hh'], t['dig']
    for i in range(n):
        if dig[i] != digest3(*ids[i]):
            bad.append('getDigest() of id %d is %d, the test digester computes %d' % (i, dig[i], digest3(*ids[i])))

    def first(name, gen):
        for msg in gen:
            bad.append('%s: %s' % (name, msg))
            return

    def inc(i, j):
        return not lt[i][j] and not lt[j][i]
    R = range(n)
    first('== not reflexive', ('id %d' % i for i in R if not eq[i][i]))
    first('== not symmetric', ('ids %d %d' % (i, j) for i in R for j in R if eq[i][j] and not eq[j][i]))
    first('== not transitive', ('ids %d %d %d' % (i, j, k) for i in R for j in R if eq[i][j] for k in R if eq[j][k] and not eq[i][k]))
    first('< not irreflexive', ('id %d' % i for i in R if lt[i][i]))
    first('< not transitive', ('ids %d %d %d' % (i, j, k) for i in R for j in R if lt[i][j] for k in R if lt[j][k] and not lt[i][k]))
    first('incomparability under < not transitive', ('ids %d %d %d' % (i, j, k) for i in R for j in R if inc(i, j) for k in R if inc(j, k) and not inc(i, k)))
    first('incomparability under < differs from ==', ('ids %d %d (== %d, a<b %d, b<a %d)' % (i, j, eq[i][j], lt[i][j], lt[j][i]) for i in R for j in R if inc(i, j) != eq[i][j]))
    first('equal ids hash differently', ('ids %d %d' % (i, j) for i in R for j in R if eq[i][j] and not hh[i][j]))
    if case['storage'] == 'val':
        first('ids with different stored values compare ==', ('ids %d %d' % (i, j) for i in R for j in R if eq[i][j] and stored(*ids[i]) != stored(*ids[j])))
        first('ids with the same digest and the same stored value compare !=', ('ids %d %d' % (i, j) for i in R for j in R
                                                                                if not eq[i][j] and stored(*ids[i]) == stored(*ids[j]) and dig[i] == dig[j]))
    else:
        first('empty storage: == differs from digest equality', ('ids %d %d' % (i, j) for i in R for j in R if eq[i][j] != (dig[i] == dig[j])))
    for kind in KINDS:
        runs = t['run'].get(kind, [])
        if [i for i, _ in runs] != list(case['dispatch']):
            if not died:
                bad.append('dispatcher %s: run lines do not match the dispatch list' % kind)
            runs = []
        for i, ran in runs:
            want = [p + 1 for p, li in enumerate(case['listen']) if eq[i][li]]
            if ran != want:
                bad.append('dispatcher %s: dispatch under id %d ran listeners %s, the listeners registered under == ids are %s' % (kind, i, ran, want))
                break
    if died:
        bad.append('implementation died: ' + died[0])
    return bad


# ---------------------------------------------------------------------------------------------

def shrink(case, still_fails, max_tests=300, max_seconds=120.0):
    tests = [0]
    t0 = time.time()

    def ok(c):
        tests[0] += 1
        if tests[0] > max_tests or time.time() - t0 > max_seconds:
            tests[0] = max_tests + 1
            return False
        try:
            return still_fails(c)
        except Exception:
            return False

    def drop_id(c, k):
        remap = {}
        ids = []
        for i, v in enumerate(c['ids']):
            if i != k:
                remap[i] = len(ids)
                ids.append(v)
        return {'storage': c['storage'], 'ids': ids,
                'listen': [remap[i] for i in c['listen'] if i in remap],
                'dispatch': [remap[i] for i in c['dispatch'] if i in remap]}

    cur = {'storage': case['storage'], 'ids': list(case['ids']), 'listen': list(case['listen']), 'dispatch': list(case['dispatch'])}
    changed = True
    while changed and tests[0] <= max_tests:
        changed = False
        k = 0
        while k < len(cur['ids']) and len(cur['ids']) > 1:
            cand = drop_id(cur, k)
            if ok(cand):
                cur = cand
                changed = True
            else:
                k += 1
        for field in ('listen', 'dispatch'):
            k = 0
            while k < len(cur[field]):
                cand = dict(cur)
                cand[field] = cur[field][:k] + cur[field][k + 1:]
                if ok(cand):
                    cur = cand
                    changed = True
                else:
                    k += 1
    return cur


def impl_keep(l):
    return True


def evaluate(ctx, binary, case, model_mode='anyid'):
    """(model trace, impl trace, model/impl difference or None, oracle findings)"""
    t = case_text('0', case)
    m = vlib.run_model(model_mode, t, driver='anyid').get('0', ['error'])
    im = run_impl(ctx, binary, {'0': t}, ['0'], per_batch=8.0, max_restarts=1).get('0', ['<missing>'])
    d = vlib.first_diff(m, im) if 'error' not in m else None
    return m, im, d, oracle(case, im)


def correspond(ctx, binaries, cases, what='AnyId'):
    """runs the extracted model and the implementation(s) on the cases, compares the traces, and
    applies the direct oracle to every implementation trace; shrinks and reports the first few
    failures as violations"""
    idx = [str(i) for i in range(len(cases))]
    texts = {i: case_text(i, cases[int(i)]) for i in idx}
    model = vlib.run_model('anyid', ''.join(texts[i] for i in idx), driver='anyid')
    usable = [i for i in idx if 'error' not in model.get(i, ['error'])]
    stats = {'generated': len(cases), 'model_error_discarded': len(idx) - len(usable), 'compared': 0, 'disagreements': 0,
             'oracle_failures': 0, 'pairs': 0, 'pairs_colliding_distinct': 0, 'pairs_equal_across_types': 0, 'triples': 0,
             'dispatches': 0, 'dispatches_reaching_listeners': 0}
    distinct = set()
    for i in usable:
        c = cases[int(i)]
        tot, coll, cross = pair_stats(c)
        stats['pairs'] += tot
        stats['pairs_colliding_distinct'] += coll
        stats['pairs_equal_across_types'] += cross
        stats['triples'] += len(c['ids']) ** 3
        runs = [l for l in model[i] if l.startswith('run ')]
        stats['dispatches'] += len(runs)
        nonempty = sum(1 for l in runs if l.split(':', 1)[1].strip())
        stats['dispatches_reaching_listeners'] += nonempty
        if coll >= 1 and nonempty >= 1:
            distinct.add(texts[i].split('\n', 1)[1])
    stats['distinct_nontrivial'] = len(distinct)
    reported = 0
    for bname, binary in binaries.items():
        impl = run_impl(ctx, binary, texts, usable)
        stats['skipped_after_repeated_crashes'] = stats.get('skipped_after_repeated_crashes', 0) + sum(1 for i in usable if impl.get(i) == ['<skipped>'])
        if '__exit__' in impl:
            ctx.violation(''.join(texts[i] for i in usable[:20]), '%s: harness %s: %s at process exit (not attributable to one case)' % (what, bname, impl['__exit__'][0]))
            reported += 1
        for i in usable:
            stats['compared'] += 1
            im = impl.get(i, ['<missing>'])
            if im == ['<skipped>']:
                stats['compared'] -= 1
                continue
            if 'lossyhash' in bname:
                # the model's hash is the identity on digests; this variant's is not: which hashes are equal is not compared
                d = vlib.first_diff([l for l in model[i] if not l.startswith('hh')], [l for l in im if not l.startswith('hh')])
            else:
                d = vlib.first_diff(model[i], im)
            orc = oracle(cases[int(i)], im)
            if d is None and not orc:
                continue
            if d is not None:
                stats['disagreements'] += 1
            if orc:
                stats['oracle_failures'] += 1
            if reported >= 3:
                continue
            reported += 1
            key = orc[0].split(':')[0] if orc else None

            def still(c, binary=binary, key=key):
                m, im2, d2, o2 = evaluate(ctx, binary, c)
                return any(o.startswith(key) for o in o2) if key is not None else (d2 is not None)
            small = shrink(cases[int(i)], still)
            m, im2, d2, o2 = evaluate(ctx, binary, small)
            replay = case_text('0', small) + '# harness: %s\n# model : %s\n# impl  : %s\n# oracle: %s\n' % (
                bname, ' | '.join(m), ' | '.join(im2), ' || '.join(o2) if o2 else 'no law violated')
            if o2:
                msg = '%s: the real code violates the property on this input: %s' % (what, o2[0])
            else:
                msg = '%s: implementation (%s) differs from the model at trace line %s: model `%s`, implementation `%s`' % (
                    what, bname, d2[0] if d2 else '?', d2[1] if d2 else '?', d2[2] if d2 else '?')
            ctx.violation(replay, msg)
    return stats, model, texts, usable


def replay_file(ctx, path, binaries):
    cases = parse_case_text(open(path).read())
    bad = 0
    for case in cases:
        for bname, binary in binaries.items():
            m, im, d, orc = evaluate(ctx, binary, case)
            print('model : ' + ' | '.join(m))
            print('impl %s: %s' % (bname, ' | '.join(im)))
            print('oracle: ' + (' || '.join(orc) if orc else 'no law violated'))
            if d is not None or orc:
                bad += 1
    return bad
