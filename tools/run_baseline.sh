#!/bin/bash
# Runs the repository's own unit suite with the verification guard OFF
# (no -DEVENTPP_VERIF anywhere), in a scratch build directory that is removed afterwards.
set -e
B=$(mktemp -d /verif/build/baseline.XXXXXX)
trap 'rm -rf "$B"' EXIT
SRC=${1:-/repo}
cmake -G Ninja -S "$SRC/tests" -B "$B" -DCMAKE_BUILD_TYPE=RelWithDebInfo >/dev/null
cmake --build "$B" --target unittest -j16 >/dev/null
ctest --test-dir "$B" -j8 --timeout 900 --output-on-failure
"$B"/unittest/unittest -r compact | tail -3
