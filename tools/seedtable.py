#!/usr/bin/env python3
"""prints the markdown table of seeded changes and what the checks reported (from seeded/*/meta.json)"""
import glob
import json
import os

rows = []
for d in sorted(glob.glob('/verif/seeded/*')):
    try:
        m = json.load(open(os.path.join(d, 'meta.json')))
    except Exception:
        continue
    runs = {}
    for r in (m.get('checks_run') or []) + (m.get('rechecks') or []):
        cid, rest = r.split(':', 1)
        v = int(rest.split('violations=')[1])
        runs.setdefault(cid, []).append(v)
    first = {c: vs[0] for c, vs in runs.items()}
    last = {c: vs[-1] for c, vs in runs.items()}
    caught = [c for c, v in last.items() if v > 0]
    missed_first = [c for c, v in first.items() if v == 0 and last[c] > 0]
    silent = [c for c, v in last.items() if v == 0]
    summ = (m.get('summary') or '').replace('\n', ' ').replace('|', '/')
    rows.append('| %s | %s | %s | %s | %s | %s |' % (os.path.basename(d), m.get('property'), summ[:170] + ('…' if len(summ) > 170 else ''),
                                                ' '.join(sorted(caught)) or '—', ' '.join(sorted(missed_first)) or '—', ' '.join(sorted(silent)) or '—'))
print('| seed | made for | change | checks that report it | of these, missed at first (strengthened since) | checks run that stay silent |')
print('|---|---|---|---|---|---|')
print('\n'.join(rows))
