"""shared driver for the properties decided on the callback-list model (C01 C02 C08 C10 C19)"""
import json
import os

import cl_domain
import vlib

TRUSTED = [
    'Coq 8.16.1 kernel (coqc); vm_compute only inside Example/witness lemmas; no native_compute',
    'Print Assumptions for every property theorem is re-run and parsed on each check (expected: Closed under the global context)',
    'extraction: ExtrOcamlBasic only (bool/option/list/prod/unit/sumbool mapped); OCaml 4.13.1; ocaml/driver.ml',
    'tie A: tools/leafgen.py + clang 14 AST dump for the regenerated leaves (coq/gen/*.v)',
    'tie B: harness/cl.cpp interpreter, ASan+UBSan+LSan, the case generator tools/cl_domain.py',
    'modelled not verified: std::shared_ptr/weak_ptr as reachability, std::function as a copyable callable, mutexes as no-ops in the sequential model',
]

VARIANTS = {
    'multi_functor': ['VH_POLICY=0', 'VH_CB=1'],
    'single_stdfunction': ['VH_POLICY=1', 'VH_CB=0'],
    'spinlock_functor': ['VH_POLICY=2', 'VH_CB=1'],
}


def needs_cb1(case):
    for c in case['main']:
        if c[0] in ('has', 'removel'):
            return True
    for body in case['cbs'].values():
        for c in body:
            if c[0] in ('has', 'removel'):
                return True
    return False


def strip_cb1(case):
    """std::function callbacks are not comparable: drop has/removel for that harness variant"""
    out = {'nl': case['nl'], 'cbs': {}, 'main': [c for c in case['main'] if c[0] not in ('has', 'removel')]}
    for k, body in case['cbs'].items():
        nb = [c for c in body if c[0] not in ('has', 'removel')]
        if nb:
            out['cbs'][k] = nb
    return out


def build_variants(ctx, names):
    """builds the named variants of harness/cl.cpp.  A variant that no longer compiles against the headers (e.g. the functor
    callback, which has no default constructor, after a change that default-constructs callbacks) is recorded in
    ctx.harness_failures and the other variants — all of them, as substitutes — are used to look for a failing input;
    only when no variant compiles is the correspondence impossible."""
    specs = [dict(name='cl_' + n, src='cl.cpp', defs=VARIANTS[n]) for n in names]
    res = vlib.build_many(ctx, specs)
    bins, failed = {}, {}
    for n in names:
        path, err = res['cl_' + n]
        if path is None:
            failed[n] = err
        else:
            bins[n] = path
    if failed:
        others = [n for n in VARIANTS if n not in names]
        res2 = vlib.build_many(ctx, [dict(name='cl_' + n, src='cl.cpp', defs=VARIANTS[n]) for n in others]) if others else {}
        for n in others:
            path, err = res2['cl_' + n]
            if path is not None:
                bins[n] = path
        if not bins:
            n, err = sorted(failed.items())[0]
            raise RuntimeError('harness cl.cpp (%s) does not compile against /repo: %s' % (n, err[-1500:]))
        prev = getattr(ctx, 'harness_failures', {})
        prev.update(failed)
        ctx.harness_failures = prev
        ctx.notes.append('harness variant(s) %s no longer compile against the headers; used instead: %s' % (', '.join(sorted(failed)), ', '.join(sorted(bins))))
    return bins


def report_harness_failures(ctx):
    """a configuration the property covers (a callback type the library accepted) is rejected by the compiler now: reported,
    without a failing input unless another variant produced one"""
    failed = getattr(ctx, 'harness_failures', None)
    if failed and not ctx.violations:
        n, err = sorted(failed.items())[0]
        ctx.violation('# correspondence that could not be carried out: harness/cl.cpp variant %s (defines %s) no longer compiles against the headers\n# %s\n'
                      % (n, ' '.join(VARIANTS[n]), err[-1500:].replace('\n', '\n# ')),
                      'harness variant %s does not compile against the headers any more (a callback type that was accepted is rejected): %s'
                      % (n, err.strip().splitlines()[-1][:200] if err.strip() else ''), no_input=True)


def corpus_cases(sub='cl'):
    d = os.path.join(vlib.ROOT, 'corpus', sub)
    out = []
    if os.path.isdir(d):
        for f in sorted(os.listdir(d)):
            if f.endswith('.case'):
                out += cl_domain.parse_case_text(open(os.path.join(d, f)).read())
    return out


def run(ctx, prop_files, flavours, n_quick, n_thorough, keep=lambda l: True, variants_quick=('multi_functor',),
        variants_thorough=('multi_functor', 'single_stdfunction', 'spinlock_functor'), what='callback list',
        filter_case=None, extra_trusted=(), leaves=('callbacklist',), report_unfound=True, spec_equiv=None):
    proof = vlib.coq_prove(ctx, prop_files, leaves=list(leaves))
    names = variants_thorough if ctx.tier == 'thorough' else variants_quick
    bins = build_variants(ctx, names)
    n = ctx.budget(n_quick, n_thorough)
    # corpus first, then generated cases; one PRNG stream
    cases = [c for c in corpus_cases() if filter_case is None or filter_case(c)]
    ncorpus = len(cases)
    hist = {}
    for k in range(n):
        fl = flavours[k % len(flavours)]
        g = cl_domain.Gen(ctx.rng.fork(), fl)
        cases.append(g.gen())
        for s, v in g.stats.items():
            hist[s] = hist.get(s, 0) + v
    tot = {'generated': 0, 'compared': 0, 'disagreements': 0, 'model_error_discarded': 0, 'distinct_nontrivial': 0, 'features': {}}
    oracle_domain = 'cl'
    if not proof['ok']:
        # the refinement proof no longer checks: the mechanism model may follow a changed leaf,
        # so the SPEC (cl-spec) becomes the oracle for the search of a failing input
        oracle_domain = 'cl-spec'
        keep0 = keep
        keep = lambda l, keep0=keep0: keep0(l) and not l.startswith('ledger')   # noqa: E731
    for vname, binary in bins.items():
        vc = cases
        if 'stdfunction' in vname:
            vc = [strip_cb1(c) for c in cases]
        st, model, texts, usable = cl_domain.correspond(ctx, {vname: binary}, vc, keep=keep, model_domain=oracle_domain, what=what,
                                                        equiv=spec_equiv if oracle_domain == 'cl-spec' else None)
        for k in ('generated', 'compared', 'disagreements', 'model_error_discarded'):
            tot[k] += st[k]
        tot['distinct_nontrivial'] = max(tot['distinct_nontrivial'], st['distinct_nontrivial'])
        for f, v in st['features'].items():
            tot['features'][f] = tot['features'].get(f, 0) + v
        if not ctx.samples and usable:
            for i in usable[ncorpus:ncorpus + 2]:
                ctx.samples.append({'case': texts[i].strip().split('\n'), 'model_trace': model[i][:40]})
    report_harness_failures(ctx)
    if not proof['ok'] and not ctx.violations and report_unfound:
        ctx.violation('# no failing input found by %d generated cases against the spec oracle\n# broken obligation(s):\n# %s\n'
                      % (tot['compared'], '\n# '.join(proof['errors'])),
                      'proof obligation no longer checks: ' + '; '.join(proof['errors'])[:400], no_input=True)
    ctx.coverage.update({
        'obligations': proof['obligations'], 'discharged': proof['discharged'],
        'checker_cmd': 'make -C /verif/coq -f Makefile.coq %s && coqc -Q . EV <each property file> (Print Assumptions parsed)' % ' '.join(f.replace('.v', '.vo') for f in prop_files),
        'trusted_base': TRUSTED + list(extra_trusted),
        'theorems': proof['names'], 'axioms_reported': proof['axioms'], 'closed_under_global_context': proof['closed'],
        'proof_errors': proof['errors'], 'generated_leaves': proof.get('leaves', {}),
        'evaluations': tot['compared'], 'distinct_nontrivial': tot['distinct_nontrivial'],
        'rule': 'cases from tools/cl_domain.py flavours %s (+%d corpus cases), each run on the extracted Coq model and on the real CallbackList (variants %s); '
                'non-trivial = model trace has >=3 calls/visits and >=1 boolean result; distinct by case text' % (list(flavours), ncorpus, list(names)),
        'traces_validated_against_impl': tot['compared'], 'disagreements': tot['disagreements'],
        'model_error_discarded': tot['model_error_discarded'], 'generator_histogram': hist, 'case_features': tot['features'],
        'header_sha': vlib.sha(os.path.join(vlib.REPO, 'include/eventpp/callbacklist.h')),
    })
    ctx.assumptions += ['sequential consistency; callbacks are deterministic functions of their activation index',
                        'no_foreign: a handle is only presented to the list that owns its nodes (cases violating it are discarded by the model and counted)']
    return proof


def replay(ctx, path, keep=lambda l: True):
    bins = build_variants(ctx, ['multi_functor'])
    return cl_domain.replay_file(ctx, path, bins, keep=keep)
