"""C16 — CounterRemover and ConditionalRemover detach listeners exactly when promised

proof : coq/Properties_C16.v over coq/AutoRemoveModel.v / AutoRemoveProofs.v: for every re-entrant program
        (induction over the run) C16_counter_remover_exact, C16_conditional_remover_exact,
        C16_attached_wrapper_is_triggered, C16_helper_lifetime_irrelevant for the wrappers as generated from
        the headers, for EVERY trigger count an int can hold (zero, negative, INT_MIN included);
        C16_specification_meets_the_statements (the oracle), C16_guarded_counter_covers_every_count (the
        repaired wrapper written out by hand) and the regression witness C16_counter_int_min_refuted (the
        legacy wrapper `if(--data->triggerCount <= 0)` at INT_MIN: overflow, never removed; observation P9,
        repaired in /repo by bebac6a)
tie A : tools/leaves/autoremove.py -> coq/gen/GenAutoRemove.v (the decrement-and-test of the counter wrapper,
        the order removal / call in both wrappers, the condition's arguments, where the wrappers keep their
        state; both specialisations of both helpers, read from the instantiated operator())
tie B : harness/autoremove.cpp (real counterRemover / conditionalRemover over CallbackList, EventDispatcher,
        EventQueue, HeterCallbackList, HeterEventDispatcher; temporary and kept helper objects) against the
        extracted model on generated re-entrant histories, two builds in the quick tier
break : a failing proof step or an untranslatable leaf switches the oracle to the extracted SPECIFICATION
        (`driver_autoremove spec`: the wrappers as C16 promises them, independent of the headers) and searches
        a failing input; a disagreement is shrunk and reported with model, spec and implementation traces.
INT_MIN: regression check of the repaired defect P9.  INT_MIN counts are part of the generated stream and of the
        corpus; in addition corpus/autoremove/int_min.probe is run in processes of its own on the sanitised
        harness and on a plain -O0 build (with the legacy wrapper the decrement is undefined behaviour: UBSan
        stops the sanitised harness, the plain build never removes the listener).  A misbehaviour is reported
        through ctx.violation(..., key='counterremover-int-min') with the INT_MIN input as replay; on the
        repaired tree the probe is silent."""
import hashlib
import os

import autoremove_domain as ad
import vlib

FILES = ['Properties_C16.v']
LEAF = 'GenAutoRemove.v'
PROBE_INT_MIN = True
FINDING_KEY = 'counterremover-int-min'

TRUSTED = [
    'Coq 8.16.1 kernel (coqc); vm_compute only inside Example/witness lemmas; no native_compute',
    'Print Assumptions for every property theorem is re-run and parsed on each check (expected: Closed under the global context)',
    'extraction: ExtrOcamlBasic only; OCaml 4.13.1; ocaml/driver_autoremove.ml',
    'tie A: tools/leaves/autoremove.py + clang 14 AST dump of the instantiated Wrapper::operator() / ItemByCondition::operator() '
    'of both specialisations (statement shapes outside `if(test) remove own handle; data->listener(args...)` are rejected)',
    'tie B: harness/autoremove.cpp interpreter (ASan+UBSan+LSan), the case generator tools/autoremove_domain.py',
    'modelled not verified: the listener lists at the snapshot level (their pointer level and the snapshot rule are C01/C02; '
    'per-event lists C04; the queue as a plain pending list, its slots are C05), std::shared_ptr<Data> as "the wrapper\'s state '
    'outlives the helper", int as Z with explicit wrap-around, heterogeneous targets as one list per (event, prototype), '
    'listener and condition bodies as deterministic tables indexed by activation count',
]

VARIANTS_QUICK = [
    dict(name='autoremove_gxx17', src='autoremove.cpp'),
    dict(name='autoremove_clang11_single', src='autoremove.cpp', compiler='clang++', std='c++11', defs=['VH_POLICY=1']),
]
PLAIN = dict(name='autoremove_plain_O0', src='autoremove.cpp', opt='-O0', san=False)     # INT_MIN probe only
VARIANTS_THOROUGH = VARIANTS_QUICK + [
    dict(name='autoremove_gxx20_O2', src='autoremove.cpp', std='c++20', opt='-O2'),
    dict(name='autoremove_clang17_O2', src='autoremove.cpp', compiler='clang++', std='c++17', opt='-O2'),
]


def build(ctx, specs, extra=()):
    res = vlib.build_many(ctx, list(specs) + list(extra))
    ctx.extra_builds = {e['name']: res[e['name']] for e in extra}
    bins = {}
    for s in specs:
        path, err = res[s['name']]
        if path is None:
            raise RuntimeError('harness autoremove.cpp (%s) does not compile against the repository: %s' % (s['name'], err[-1500:]))
        bins[s['name']] = path
    return bins


def corpus_cases():
    d = os.path.join(vlib.ROOT, 'corpus', 'autoremove')
    out = []
    if os.path.isdir(d):
        for f in sorted(os.listdir(d)):
            if f.endswith('.case'):
                out += ad.parse_case_text(open(os.path.join(d, f)).read())
    return out


def prove_and_extract(ctx):
    """tie A + proofs + extraction.  coq/gen is shared with concurrently running checks of other
    properties (possibly pointed at a scratch tree): if GenAutoRemove.v is no longer the text this
    run generated, the proof step is repeated (bounded)."""
    proof = vlib.coq_prove(ctx, FILES)
    for _ in range(2):
        want = proof.get('leaves', {}).get(LEAF)
        try:
            have = hashlib.sha256(open(os.path.join(vlib.COQ, 'gen', LEAF), 'rb').read()).hexdigest()[:16]
        except OSError:
            have = None
        if want is None or want == have:
            break
        ctx.notes.append('coq/gen/%s was rewritten by a concurrent run during the proof step; proof step repeated' % LEAF)
        proof = vlib.coq_prove(ctx, FILES)
    # errors of other domains' leaves do not concern this property
    own = [e for e in proof['errors'] if 'tie A' not in e or 'autoremove' in e]
    if len(own) != len(proof['errors']):
        foreign = [e for e in proof['errors'] if e not in own]
        ctx.notes.append('leaf translation failures of other domains ignored: ' + '; '.join(foreign)[:400])
        proof['errors'] = own
        if not own and proof['discharged'] == proof['obligations'] and proof['obligations'] > 0:
            proof['ok'] = True
    rc, o, e = vlib.sh('make -C %s _build/driver_autoremove' % vlib.OCAML, timeout=600)
    if rc != 0 or not os.path.exists(os.path.join(vlib.DRIVERS, 'driver_autoremove')):
        raise RuntimeError('model driver driver_autoremove does not build: %s' % (e or o)[-800:])
    return proof


def probe_int_min(ctx, bins, plain_build=None):
    """trigger count INT_MIN against the real code, in processes of its own"""
    path = os.path.join(vlib.ROOT, 'corpus', 'autoremove', 'int_min.probe')
    cases = ad.parse_case_text(open(path).read())
    plain, err = plain_build if plain_build else vlib.build_cpp(ctx, PLAIN['name'], 'autoremove.cpp', opt='-O0', san=False)
    san = sorted(bins.items())[0]
    for k, case in enumerate(cases):
        t = ad.case_text('0', case)
        sp = ad.run_model('spec', t).get('0', ['error'])
        m = ad.run_model('model', t).get('0', ['error'])
        im_san = vlib.run_impl(san[1], {'0': t}, ['0'], timeout=60).get('0', ['<missing>'])
        im_plain = vlib.run_impl(plain, {'0': t}, ['0'], timeout=60).get('0', ['<missing>']) if plain else ['<not built: %s>' % err[-200:]]
        if im_plain != sp or any(l.startswith('CRASH') for l in im_san):
            replay = t + ('# trigger count INT_MIN: `--data->triggerCount` overflows (undefined behaviour)\n'
                          '# spec (promise: max(INT_MIN,1) = 1 call)   : %s\n# model (wrap-around, overflow recorded)    : %s\n'
                          '# impl %s (ASan+UBSan) : %s\n# impl g++ -O0, no sanitizer               : %s\n'
                          % (' | '.join(sp), ' | '.join(m), san[0], ' | '.join(im_san), ' | '.join(im_plain)))
            ctx.violation(replay, 'CounterRemover with trigger count INT_MIN: the decrement overflows (UBSan: signed integer overflow); '
                                  'without sanitizer the listener is never removed (promised: one call)', key=FINDING_KEY)
            return True
    return False


def run(ctx):
    proof = prove_and_extract(ctx)
    bins = build(ctx, VARIANTS_THOROUGH if ctx.tier == 'thorough' else VARIANTS_QUICK, extra=[PLAIN] if PROBE_INT_MIN else [])
    n = ctx.budget(3000, 40000)
    cases = corpus_cases()
    ncorpus = len(cases)
    hist = {}
    for k in range(n):
        g = ad.Gen(ctx.rng.fork(), ad.TARGETS[k % len(ad.TARGETS)])
        cases.append(g.gen())
        for s, v in g.stats.items():
            hist[s] = hist.get(s, 0) + v
    # proof ok: the model as tie A reads the headers now is the oracle (it is the proved one);
    # otherwise the specification (independent of the headers)
    oracle = 'model' if proof['ok'] else 'spec'
    what = 'CounterRemover/ConditionalRemover'
    if not proof['ok']:
        what += ' [proof step failed: %s; oracle = specification]' % '; '.join(proof['errors'])[:300]
    stats, model, texts, usable = ad.correspond(ctx, bins, cases, oracle=oracle, what=what)
    for i in usable[ncorpus:ncorpus + 2]:
        ctx.samples.append({'case': texts[i].strip().split('\n'), 'model_trace': model[i][:40]})
    if not proof['ok'] and not ctx.violations:
        ctx.violation('# no failing input found by %d comparisons against the specification oracle\n# broken obligation(s):\n# %s\n'
                      % (stats['compared'], '\n# '.join(proof['errors'])),
                      'proof obligation no longer checks: ' + '; '.join(proof['errors'])[:400], no_input=True)
    probe = None
    if PROBE_INT_MIN:
        probe = probe_int_min(ctx, bins, ctx.extra_builds.get(PLAIN['name']))
    ctx.coverage.update({
        'obligations': proof['obligations'], 'discharged': proof['discharged'],
        'checker_cmd': 'make -C /verif/coq -f Makefile.coq Properties_C16.vo && coqc -Q . EV Properties_C16.v (Print Assumptions parsed)',
        'trusted_base': TRUSTED,
        'theorems': proof['names'], 'axioms_reported': proof['axioms'], 'closed_under_global_context': proof['closed'],
        'proof_errors': proof['errors'], 'generated_leaves': {k: v for k, v in proof.get('leaves', {}).items() if k == LEAF},
        'oracle': oracle,
        'evaluations': stats['compared'], 'distinct_nontrivial': stats['distinct_nontrivial'],
        'rule': 'cases from tools/autoremove_domain.py, targets list/disp/queue/hlist/hdisp in turn, temporary and kept helper objects, '
                'counts from {INT_MIN+1,-3,-1,0,1,2,3,7}, INT_MIN, INT_MAX and others (+%d corpus cases), each run on the extracted Coq model (%s) and on the real '
                'helpers (%s); non-trivial = the case adds at least one wrapper and its trace has >=2 listener calls; distinct by case text'
                % (ncorpus, oracle, sorted(bins)),
        'traces_validated_against_impl': stats['compared'], 'disagreements': stats['disagreements'],
        'model_error_discarded': stats['model_error_discarded'], 'model_vs_spec_differences': stats['model_vs_spec_differences'],
        'model_overflow_flagged': stats['model_overflow_flagged'],
        'generator_histogram': hist, 'case_features': stats['features'],
        'int_min_probe': ('disabled' if not PROBE_INT_MIN else ('misbehaviour observed' if probe else 'no misbehaviour: sanitised harness and plain -O0 build both equal the specification (one call, detached)')),
        'header_sha': {h: vlib.sha(os.path.join(vlib.REPO, 'include/eventpp/utilities', h)) for h in ('counterremover.h', 'conditionalremover.h')},
    })
    ctx.assumptions += [
        'single-threaded histories; listener and condition bodies are deterministic functions of their activation index; conditions do not run commands',
        'trigger counts are ints (INT_MIN <= n <= INT_MAX; INT_MIN is covered since the repair of observation P9, C16_counter_int_min_refuted keeps the witness for the legacy wrapper)',
        'a handle is only used with the list/event it was issued for (other uses are rejected by the model and counted as discarded)',
        'the snapshot rule of the underlying listener lists (C02) and per-event routing (C04) are taken from their own properties',
        'on heterogeneous targets conditional entries are added for the first prototype only (the wrapper accepts any argument list, '
        'so the target files it there; other prototypes do not compile)',
    ]


def replay(ctx, path):
    bins = build(ctx, VARIANTS_QUICK[:1])
    return ad.replay_file(ctx, path, bins)
