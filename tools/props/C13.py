"""C13 — OrderedQueueList processes events in comparator order, stably, exactly once"""
from props import _q_common as qc

FILES = ['Properties_C13.v']


def keep(line):
    return not line.startswith('live')


def run(ctx):
    qc.run(ctx, FILES, ['ordered'], n_quick=1500, n_thorough=60000, keep=keep, what='EventQueue with OrderedQueueList')


def replay(ctx, path):
    return qc.replay(ctx, path, keep=keep)
