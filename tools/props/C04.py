"""C04 — dispatch reaches exactly the dispatched event's listeners, arguments intact.
The callback-list cases (domain cl) are run against the real EventDispatcher: list slot L is
event key keyOf(L); the proved CL model predicts every trace line.  Built with g++ AND
clang++ (opposite evaluation orders of function arguments)."""
import os

import cl_domain
import q_domain
import vlib
from props import _cl_common as cc
from props import _q_common as qc

FILES = ['Properties_C04.v']

# name -> (compiler, std, defs)
VARIANTS_QUICK = {
    'gxx_string_incl_byvalue': ('g++', 'c++17', ['VH_KEY=1', 'VH_ARGMODE=1']),
    'clang_string_incl_byvalue': ('clang++', 'c++17', ['VH_KEY=1', 'VH_ARGMODE=1', 'VH_POLICY=1']),
    'gxx_int_excl': ('g++', 'c++11', ['VH_KEY=0', 'VH_ARGMODE=0', 'VH_MAP=2']),
    'gxx_ordered_userkey_incl_ref': ('g++', 'c++14', ['VH_KEY=3', 'VH_ARGMODE=2']),
    'clang_hashed_userkey_incl_byvalue': ('clang++', 'c++20', ['VH_KEY=4', 'VH_ARGMODE=1', 'VH_POLICY=2']),
    'gxx_enum_excl': ('g++', 'c++20', ['VH_KEY=2', 'VH_ARGMODE=0', 'VH_MAP=1']),
    # a getEvent policy that returns a reference to the key argument (not a copy)
    'gxx_string_incl_byvalue_refpolicy': ('g++', 'c++17', ['VH_KEY=1', 'VH_ARGMODE=1', 'VH_GETEVENT=1']),
    'clang_string_incl_byvalue_refpolicy': ('clang++', 'c++14', ['VH_KEY=1', 'VH_ARGMODE=1', 'VH_GETEVENT=1', 'VH_POLICY=1']),
    # a getEvent policy that takes the listener argument by value (exclude-event form)
    'gxx_int_excl_byvalue_policy': ('g++', 'c++17', ['VH_KEY=0', 'VH_ARGMODE=0', 'VH_GETEVENT=2']),
    # a getEvent policy whose result only converts to the key (long for an int key) and maps the key
    'gxx_int_incl_converting_policy': ('g++', 'c++17', ['VH_KEY=0', 'VH_ARGMODE=1', 'VH_GETEVENT=3']),
    'clang_int_excl_converting_policy': ('clang++', 'c++14', ['VH_KEY=0', 'VH_ARGMODE=0', 'VH_GETEVENT=3']),
    # a user-supplied flat map (sorted vector): the lists move when an entry is inserted in front of them
    'gxx_int_excl_flatmap': ('g++', 'c++17', ['VH_KEY=0', 'VH_ARGMODE=0', 'VH_MAP=3', 'VH_POLICY=1']),
    'gxx_string_incl_flatmap': ('g++', 'c++11', ['VH_KEY=1', 'VH_ARGMODE=1', 'VH_MAP=3', 'VH_POLICY=1']),
}
VARIANTS_MORE = {
    'clang_string_excl': ('clang++', 'c++11', ['VH_KEY=1', 'VH_ARGMODE=0', 'VH_MAP=1']),
    'gxx_string_incl_ref': ('g++', 'c++20', ['VH_KEY=1', 'VH_ARGMODE=2', 'VH_MAP=2']),
    'clang_int_incl_byvalue': ('clang++', 'c++14', ['VH_KEY=0', 'VH_ARGMODE=1']),
    'gxx_hashed_userkey_excl': ('g++', 'c++17', ['VH_KEY=4', 'VH_ARGMODE=0']),
    'clang_ordered_userkey_incl_byvalue': ('clang++', 'c++17', ['VH_KEY=3', 'VH_ARGMODE=1']),
    'clang_enum_incl_ref_O2': ('clang++', 'c++17', ['VH_KEY=2', 'VH_ARGMODE=2']),
}


def keep(line):
    return not line.startswith('ledger')


def supported(case):
    bad = ('new', 'copyctor', 'copyassign', 'movector', 'moveassign', 'swap', 'destroy', 'setcur', 'ledger')
    for c in case['main']:
        if c[0] in bad:
            return False
    for body in case['cbs'].values():
        for c in body:
            if c[0] in bad:
                return False
    return True


def build(ctx, variants):
    specs = [dict(name='disp_' + n, src='disp.cpp', defs=v[2], compiler=v[0], std=v[1]) for n, v in variants.items()]
    res = vlib.build_many(ctx, specs)
    bins = {}
    for n in variants:
        path, err = res['disp_' + n]
        if path is None:
            raise RuntimeError('harness disp.cpp (%s) does not compile against /repo: %s' % (n, err[-1500:]))
        bins[n] = path
    return bins


def index_sequence_probe(ctx, upto=20):
    """the index sequence that expands a queued event's argument tuple, asked of the compiler for every arity 0..upto:
    MakeIndexSequence<N>::Type must be IndexSequence<0, …, N-1>.  Returns (arities checked, the first arity that is wrong or
    None, what the compiler said)"""
    import subprocess
    import leafcore
    lines = ['#include <type_traits>', '#include "eventpp/eventqueue.h"', 'using namespace eventpp::internal_;']
    for n in range(upto + 1):
        lines.append('static_assert(std::is_same<typename MakeIndexSequence<%d>::Type, IndexSequence<%s>>::value, "arity %d");'
                     % (n, ', '.join(str(i) for i in range(n)), n))
    tu = os.path.join(vlib.ROOT, 'build', 'indexseq_probe_%d.cpp' % os.getpid())
    os.makedirs(os.path.dirname(tu), exist_ok=True)
    open(tu, 'w').write('\n'.join(lines) + '\n')
    try:
        p = subprocess.run(['g++', '-std=c++11', '-fsyntax-only', '-I' + leafcore.INC, tu], stdout=subprocess.PIPE, stderr=subprocess.PIPE,
                           universal_newlines=True, timeout=300)
    finally:
        try:
            os.unlink(tu)
        except OSError:
            pass
    if p.returncode == 0:
        return upto + 1, None, ''
    import re
    bad = sorted(set(int(m) for m in re.findall(r'static assertion failed: arity (\d+)', p.stderr)))
    return upto + 1, (bad[0] if bad else -1), p.stderr[-1200:]


def run(ctx):
    proof = vlib.coq_prove(ctx, FILES, leaves=['callbacklist', 'dispatch', 'queue'])
    nref = vlib.ref_args_probe(ctx, [('g++', 'c++11', '-O1'), ('clang++', 'c++14', '-O1')] +
                               ([('g++', 'c++20', '-O2'), ('clang++', 'c++11', '-O0'), ('clang++', 'c++20', '-O2')] if ctx.tier == 'thorough' else []))
    nprobe, wrong, said = index_sequence_probe(ctx)
    if wrong is not None:
        if wrong >= 0:
            ctx.violation('# configuration: an EventQueue / HeterEventQueue whose prototype has %d parameters\n'
                          '# internal_::MakeIndexSequence<%d>::Type is not IndexSequence<0 .. %d>: a queued event reaches its listeners with the wrong\n'
                          '# stored arguments (std::get<I> over that sequence)\n# compiler: %s\n' % (wrong, wrong, wrong - 1, said.replace('\n', '\n# ')),
                          'queued dispatch: the index sequence for arity %d is wrong — listeners of a queued event with %d parameters do not receive the arguments that were enqueued'
                          % (wrong, wrong))
        else:
            ctx.violation('# the index-sequence probe does not compile against the headers\n# %s\n' % said.replace('\n', '\n# '),
                          'index-sequence probe (MakeIndexSequence<N>::Type for N = 0..%d) does not compile' % (nprobe - 1), no_input=True)
    variants = dict(VARIANTS_QUICK)
    if ctx.tier == 'thorough':
        variants.update(VARIANTS_MORE)
    bins = build(ctx, variants)
    n = ctx.budget(700, 30000)
    cases = [c for c in cc.corpus_cases() if supported(c)]
    ncorpus = len(cases)
    hist = {}
    for k in range(n):
        g = cl_domain.Gen(ctx.rng.fork(), ['nested', 'flat'][k % 2])
        c = g.gen()
        if c['nl'] == 1 and ctx.rng.chance(60):
            # more than one event: listeners of other events must not be touched
            c['nl'] = 2
            c['main'] = [['append', '1', '9', '199'], ['append', '1', '8', '198']] + c['main'] + [['foreach', '1'], ['invoke', '1', '5']]
        cases.append(c)
        for s, v in g.stats.items():
            hist[s] = hist.get(s, 0) + v
    oracle = 'cl' if proof['ok'] else 'cl-spec'
    tot = {'compared': 0, 'disagreements': 0, 'model_error_discarded': 0, 'distinct_nontrivial': 0}
    for vname, binary in bins.items():
        st, model, texts, usable = cl_domain.correspond(ctx, {vname: binary}, cases, keep=keep, model_domain=oracle,
                                                        what='EventDispatcher (%s)' % vname)
        for k in ('compared', 'disagreements', 'model_error_discarded'):
            tot[k] += st[k]
        tot['distinct_nontrivial'] = max(tot['distinct_nontrivial'], st['distinct_nontrivial'])
        if not ctx.samples and usable:
            for i in usable[ncorpus:ncorpus + 2]:
                ctx.samples.append({'case': texts[i].strip().split('\n'), 'model_trace': model[i][:40]})
    # enqueue(): the event key is read from a by-value, movable payload by a getEvent policy — the queue must file the
    # event under the caller's key whatever order the compiler evaluates the pieces in (g++ and clang++)
    qbins = qc.build_variants(ctx, ['keyfrompayload_gxx', 'keyfrompayload_clang'])
    qcases = [q_domain.Gen(ctx.rng.fork(), 'fifo').gen() for _ in range(ctx.budget(250, 10000))]
    qst, _, _, _ = q_domain.correspond(ctx, qbins, qcases, keep=lambda l: not l.startswith('live'),
                                       oracle='mech' if proof['ok'] else 'spec', what='EventQueue (key read from the by-value payload)')
    tot['compared'] += qst['compared']
    tot['disagreements'] += qst['disagreements']
    if not proof['ok'] and not ctx.violations:
        ctx.violation('# no failing input found by %d comparisons\n# broken obligation(s):\n# %s\n' % (tot['compared'], '\n# '.join(proof['errors'])),
                      'proof obligation no longer checks: ' + '; '.join(proof['errors'])[:400], no_input=True)
    ctx.coverage.update({
        'obligations': proof['obligations'], 'discharged': proof['discharged'],
        'checker_cmd': 'make -C /verif/coq -f Makefile.coq Properties_C04.vo && coqc -Q . EV Properties_C04.v (Print Assumptions parsed)',
        'trusted_base': cc.TRUSTED + ['harness/disp.cpp; g++ 12 and clang++ 14 as the two evaluation orders exercised',
                                      'tie A: tools/leaves/dispatch.py (call shapes of dispatch / enqueue / getEvent)'],
        'theorems': proof['names'], 'axioms_reported': proof['axioms'], 'closed_under_global_context': proof['closed'],
        'proof_errors': proof['errors'], 'generated_leaves': proof.get('leaves', {}),
        'evaluations': tot['compared'], 'distinct_nontrivial': tot['distinct_nontrivial'],
        'rule': 'callback-list cases (flavours nested, flat; 60%% with a second event that must stay untouched) run on the proved CL model and on the real '
                'EventDispatcher in variants %s; non-trivial as in C01' % sorted(variants),
        'traces_validated_against_impl': tot['compared'], 'disagreements': tot['disagreements'],
        'model_error_discarded': tot['model_error_discarded'], 'generator_histogram': hist,
        'build_variants': {k: list(v[:2]) + v[2] for k, v in variants.items()},
        'index_sequence_arities_probed': nprobe, 'reference_argument_probe_builds': nref,
        'header_sha': vlib.sha(os.path.join(vlib.REPO, 'include/eventpp/eventdispatcher.h')),
    })
    ctx.assumptions += ['compilers and standard libraries are not modelled: the build variants are evidence for the evaluation-order and implicit-move parameters, the theorems quantify over them']


def replay(ctx, path):
    bins = build(ctx, {'gxx_string_incl_byvalue': VARIANTS_QUICK['gxx_string_incl_byvalue'], 'clang_string_incl_byvalue': VARIANTS_QUICK['clang_string_incl_byvalue']})
    return cl_domain.replay_file(ctx, path, bins, keep=keep)
