"""C08 — stored callbacks and arguments are destroyed exactly once, never leaked.
Ledger correspondences: callback objects of callback lists (flavour `ledger` of the cl domain, with
removal during invocation, copies, moves, swaps, destroy) and event payloads of queues (flavour
`ledger` of the q domain: recycled slots, clearEvents, takeEvent, queue destruction)."""
import q_domain
import vlib
from props import _cl_common as cc
from props import _q_common as qc

FILES = ['Properties_C08.v']


def only_ledger(line):
    # the functional lines are C01/C02/C05's business; here only live-object counts and sanitizer verdicts
    return line.startswith('ledger') or line.startswith('live') or line.startswith('CRASH') or line == 'end'


def run(ctx):
    cc.run(ctx, FILES, ['ledger', 'ledger', 'restructure'], n_quick=1500, n_thorough=60000, keep=only_ledger,
           variants_quick=('multi_functor', 'single_stdfunction'), what='callback objects held by CallbackList')
    bins = qc.build_variants(ctx, ['ref_multi'])
    cases = qc.corpus_cases() + [q_domain.Gen(ctx.rng.fork(), 'ledger').gen() for _ in range(ctx.budget(1200, 40000))]
    st, model, texts, usable = q_domain.correspond(ctx, bins, cases, keep=only_ledger, what='event payloads held by EventQueue')
    ctx.coverage['queue_payload_cases_compared'] = st['compared']
    ctx.coverage['queue_payload_disagreements'] = st['disagreements']
    ctx.coverage['evaluations'] += st['compared']
    ctx.coverage['rule'] += '; plus queue `ledger` cases (payload live counts at quiescent points, after clearEvents/takeEvent and after the queue is destroyed) on the const-reference prototype harness'


def replay(ctx, path):
    text = open(path).read()
    if 'ordered ' in text:
        return qc.replay(ctx, path, keep=only_ledger)
    return cc.replay(ctx, path, keep=only_ledger)
