"""C08 — stored callbacks and arguments are destroyed exactly once, never leaked.
Ledger correspondences: callback objects of callback lists (flavour `ledger` of the cl domain, with
removal during invocation, copies, moves, swaps, destroy) and event payloads of queues (flavour
`ledger` of the q domain: recycled slots, clearEvents, takeEvent, queue destruction)."""
import exn_domain
import q_domain
import vlib
from props import C09 as c09
from props import _cl_common as cc
from props import _q_common as qc

FILES = ['Properties_C08.v']


def only_ledger(line):
    # the functional lines are C01/C02/C05's business; here only live-object counts and sanitizer verdicts
    return line.startswith('ledger') or line.startswith('live') or line.startswith('CRASH') or line == 'end'


def run(ctx):
    proof = cc.run(ctx, FILES, ['ledger', 'ledger', 'restructure'], n_quick=1500, n_thorough=60000, keep=only_ledger,
                   variants_quick=('multi_functor', 'single_stdfunction'), what='callback objects held by CallbackList',
                   leaves=('callbacklist', 'exn', 'ctors', 'queue'), report_unfound=False)
    bins = qc.build_variants(ctx, ['ref_multi'])
    cases = qc.corpus_cases() + [q_domain.Gen(ctx.rng.fork(), 'ledger').gen() for _ in range(ctx.budget(1200, 40000))]
    st, model, texts, usable = q_domain.correspond(ctx, bins, cases, keep=only_ledger, what='event payloads held by EventQueue')
    ctx.coverage['queue_payload_cases_compared'] = st['compared']
    ctx.coverage['queue_payload_disagreements'] = st['disagreements']
    ctx.coverage['evaluations'] += st['compared']
    ctx.coverage['rule'] += '; plus queue `ledger` cases (payload live counts at quiescent points, after clearEvents/takeEvent and after the queue is destroyed) on the const-reference prototype harness'
    # exceptions: the operations that copy callbacks or payloads into the library, failing at every fault point
    # (C09's fault-plan machinery: harness/exn.cpp + extracted fault profiles; `live` lines are the ledger, LSan at exit)
    proof_ok = not ctx.coverage.get('proof_errors')
    ebins = c09.build_variants(ctx, ['gxx17_map'])
    kinds = ['clcopy', 'classign', 'dcopy', 'cladd', 'clcopy', 'classign', 'hcopy', 'hassign', 'dcopy', 'enqueue', 'oenqueue', 'clcopy']
    ecases = []
    for j in range(ctx.budget(60, 600)):
        _, fam = exn_domain.plan_family(ctx.rng.fork(), kind=kinds[j % len(kinds)])
        ecases += fam
    est, _, _, _, _ = exn_domain.correspond(ctx, 'gxx17_map', ebins['gxx17_map'], ecases, oracle='code' if proof_ok else 'spec')
    ctx.coverage['fault_plan_cases_compared'] = est['compared']
    ctx.coverage['fault_plan_disagreements'] = est['disagreements']
    ctx.coverage['fault_points_fired_in_real_runs'] = est['fault_points_exercised']
    ctx.coverage['evaluations'] += est['compared']
    if not proof['ok'] and not ctx.violations:
        ctx.violation('# no failing input found by %d comparisons\n# broken obligation(s):\n# %s\n' % (ctx.coverage['evaluations'], '\n# '.join(proof['errors'])),
                      'proof obligation no longer checks: ' + '; '.join(proof['errors'])[:400], no_input=True)
    ctx.coverage['rule'] += '; plus fault plans (tools/exn_domain.py) for %s: the k-th allocation / user copy fails, k = 1..14, the live-object ledger and the containers must be as before' % kinds


def replay(ctx, path):
    text = open(path).read()
    if 'plan ' in text or 'fault ' in text:
        return exn_domain.replay_file(ctx, path, c09.build_variants(ctx, ['gxx17_map']))
    if 'ordered ' in text:
        return qc.replay(ctx, path, keep=only_ledger)
    return cc.replay(ctx, path, keep=only_ledger)
