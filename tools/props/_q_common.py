"""shared driver for the properties decided on the event-queue model (C05 C11 C13, C08 slots)"""
import os

import q_domain
import vlib

TRUSTED = [
    'Coq 8.16.1 kernel (coqc); vm_compute only inside Example lemmas; no native_compute',
    'Print Assumptions for every property theorem is re-run and parsed on each check (expected: Closed under the global context)',
    'extraction: ExtrOcamlBasic only; OCaml 4.13.1; ocaml/driver_q.ml',
    'tie A: tools/leaves/queue.py + clang 14 AST dump (coq/gen/GenQ.v: doSort lambda, emptyQueue, doCanProcess, doCanNotifyQueueAvailable)',
    'tie B: harness/queue.cpp interpreter (ASan+UBSan+LSan), generator tools/q_domain.py',
    'modelled not verified: std::list splice/swap, std::list::sort as a stable insertion sort, std::tuple, the listener lists at the snapshot level (their pointer level is C01/C02)',
]

VARIANTS = {
    'ref_multi': ['VH_PROTO=0', 'VH_POLICY=0'],
    'val_single': ['VH_PROTO=1', 'VH_POLICY=1'],
    # the event key is read from the (by-value, movable) payload by a getEvent policy
    'keyfrompayload_gxx': ['VH_PROTO=2', 'VH_POLICY=0'],
    'keyfrompayload_clang': ['VH_PROTO=2', 'VH_POLICY=1'],
}
COMPILER = {'keyfrompayload_clang': 'clang++'}


def build_variants(ctx, names):
    specs = [dict(name='q_' + n, src='queue.cpp', defs=VARIANTS[n], compiler=COMPILER.get(n, 'g++')) for n in names]
    res = vlib.build_many(ctx, specs)
    bins = {}
    for n in names:
        path, err = res['q_' + n]
        if path is None:
            raise RuntimeError('harness queue.cpp (%s) does not compile against /repo: %s' % (n, err[-1500:]))
        bins[n] = path
    return bins


def corpus_cases():
    d = os.path.join(vlib.ROOT, 'corpus', 'q')
    out = []
    if os.path.isdir(d):
        for f in sorted(os.listdir(d)):
            if f.endswith('.case'):
                out += q_domain.parse_case_text(open(os.path.join(d, f)).read())
    return out


def run(ctx, prop_files, flavours, n_quick, n_thorough, keep=lambda l: True, variants_quick=('ref_multi', 'val_single'),
        variants_thorough=('ref_multi', 'val_single'), what='EventQueue', keep_by_variant=None):
    proof = vlib.coq_prove(ctx, prop_files, leaves=['queue'])
    names = variants_thorough if ctx.tier == 'thorough' else variants_quick
    bins = build_variants(ctx, names)
    n = ctx.budget(n_quick, n_thorough)
    cases = corpus_cases()
    ncorpus = len(cases)
    hist = {}
    for k in range(n):
        g = q_domain.Gen(ctx.rng.fork(), flavours[k % len(flavours)])
        cases.append(g.gen())
        for s, v in g.stats.items():
            hist[s] = hist.get(s, 0) + v
    tot = {'generated': 0, 'compared': 0, 'disagreements': 0, 'model_error_discarded': 0, 'distinct_nontrivial': 0, 'features': {}, 'model_sloterror': 0}
    oracle = 'mech' if proof['ok'] else 'spec'
    for vname, binary in bins.items():
        kp = keep
        if keep_by_variant and vname in keep_by_variant:
            kp = keep_by_variant[vname]
        st, model, texts, usable = q_domain.correspond(ctx, {vname: binary}, cases, keep=kp, oracle=oracle, what=what)
        for k in ('generated', 'compared', 'disagreements', 'model_error_discarded', 'model_sloterror'):
            tot[k] += st[k]
        tot['distinct_nontrivial'] = max(tot['distinct_nontrivial'], st['distinct_nontrivial'])
        for f, v in st['features'].items():
            tot['features'][f] = tot['features'].get(f, 0) + v
        if not ctx.samples and usable:
            for i in usable[ncorpus:ncorpus + 2]:
                ctx.samples.append({'case': texts[i].strip().split('\n'), 'model_trace': model[i][:40]})
    if not proof['ok'] and not ctx.violations:
        ctx.violation('# no failing input found by %d comparisons against the spec oracle\n# broken obligation(s):\n# %s\n'
                      % (tot['compared'], '\n# '.join(proof['errors'])),
                      'proof obligation no longer checks: ' + '; '.join(proof['errors'])[:400], no_input=True)
    ctx.coverage.update({
        'obligations': proof['obligations'], 'discharged': proof['discharged'],
        'checker_cmd': 'make -C /verif/coq -f Makefile.coq %s && coqc -Q . EV <each property file> (Print Assumptions parsed)' % ' '.join(f.replace('.v', '.vo') for f in prop_files),
        'trusted_base': TRUSTED,
        'theorems': proof['names'], 'axioms_reported': proof['axioms'], 'closed_under_global_context': proof['closed'],
        'proof_errors': proof['errors'], 'generated_leaves': proof.get('leaves', {}),
        'evaluations': tot['compared'], 'distinct_nontrivial': tot['distinct_nontrivial'],
        'rule': 'cases from tools/q_domain.py flavours %s (+%d corpus cases), each run on the extracted Coq model (%s) and on the real EventQueue (variants %s); '
                'non-trivial = model trace has >=2 listener calls and >=1 boolean result; distinct by case text' % (list(flavours), ncorpus, oracle, list(names)),
        'traces_validated_against_impl': tot['compared'], 'disagreements': tot['disagreements'],
        'model_error_discarded': tot['model_error_discarded'], 'model_slot_errors': tot['model_sloterror'],
        'generator_histogram': hist, 'case_features': tot['features'],
        'header_sha': vlib.sha(os.path.join(vlib.REPO, 'include/eventpp/eventqueue.h')),
    })
    ctx.assumptions += ['single-threaded histories (threads: C06/C07/C11 schedules)',
                        'listener and predicate bodies are deterministic functions of their activation index',
                        'a handle is only used with the event key it was issued for']


def replay(ctx, path, keep=lambda l: True):
    bins = build_variants(ctx, ['ref_multi'])
    return q_domain.replay_file(ctx, path, bins, keep=keep)
