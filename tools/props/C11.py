"""C11 — a queue is never reported empty while an event is pending or in dispatch
(single-threaded half: the observer is a listener or runs between operations)"""
from props import _q_common as qc

FILES = ['Properties_C11.v']


def keep(line):
    return not line.startswith('live')


def run(ctx):
    qc.run(ctx, FILES, ['empty'], n_quick=1500, n_thorough=60000, keep=keep, what='EventQueue::emptyQueue')


def replay(ctx, path):
    return qc.replay(ctx, path, keep=keep)
