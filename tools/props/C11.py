"""C11 — a queue is never reported empty while an event is pending or in dispatch
(single-threaded half: the observer is a listener or runs between operations)"""
from props import _q_common as qc

FILES = ['Properties_C11.v']


def keep(line):
    return not line.startswith('live')


def run(ctx):
    qc.run(ctx, FILES, ['empty'], n_quick=1500, n_thorough=60000, keep=keep, what='EventQueue::emptyQueue')
    # thread half: observers calling emptyQueue() against producers and process/processOne/takeEvent/clearEvents
    # consumers, replayed schedule by schedule on the thread-level model and the real queue
    import qc_domain
    import vlib
    from props import _qc_common as qcc
    res = vlib.build_many(ctx, [dict(name='qconc', src='qconc.cpp', defs=[])])
    binary, err = res['qconc']
    if binary is None:
        raise RuntimeError('harness qconc.cpp does not compile against /repo: %s' % err[-1500:])
    cases = qcc.corpus_cases() + [qc_domain.gen_case(ctx.rng.fork(), 'empty') for _ in range(ctx.budget(800, 30000))]
    def mon(trace, case=None):
        return qc_domain.monitors(trace, case) + qc_domain.empty_report_problems(trace, case)
    st, model, texts = qc_domain.correspond(ctx, binary, cases, 'emptyQueue under threads', monitors=mon)
    ctx.coverage['thread_monitor_alarms'] = st['monitor_alarms']
    ctx.coverage['thread_schedules_with_a_waitfor_observer'] = sum(1 for c in cases if any(x[0] == 'waitfor' for th in c['threads'] for x in th))
    ctx.coverage['thread_schedules_replayed_on_impl'] = st['compared']
    ctx.coverage['thread_visible_actions_compared'] = st['actions']
    ctx.coverage['thread_disagreements'] = st['disagreements']
    ctx.coverage['evaluations'] += st['compared']


def replay(ctx, path):
    return qc.replay(ctx, path, keep=keep)
