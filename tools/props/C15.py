"""C15 — no listener added through a ScopedRemover outlives its remover

proof : coq/Properties_C15.v (remover_owns_inv, no_orphan_after_all_gone, responsibility_moves x3,
        foreign_untouched, remove_reports) over coq/RemoverModel.v, by induction over programs
tie A : tools/leaves/remover.py -> coq/gen/GenRemover.v (does operator=(ScopedRemover&&) reset()
        first / guard self-assignment, both specialisations)
tie B : harness/remover.cpp (real ScopedRemover over CallbackList / EventDispatcher / EventQueue)
        against the extracted model on generated histories, every final destruction order
break : a failing proof step or an untranslatable leaf switches the oracle to the model the
        theorems are proved for (`remover-spec`: move assignment releases first) and searches a
        failing input; a disagreement is shrunk and reported with the traces."""
import hashlib
import os

import remover_domain as rd
import vlib

FILES = ['Properties_C15.v']

TRUSTED = [
    'Coq 8.16.1 kernel (coqc); vm_compute only inside Example/witness lemmas; no native_compute',
    'Print Assumptions for every property theorem is re-run and parsed on each check (expected: Closed under the global context)',
    'extraction: ExtrOcamlBasic only; OCaml 4.13.1; ocaml/driver_remover.ml',
    'tie A: tools/leaves/remover.py + clang 14 AST dump of the instantiated operator=(ScopedRemover&&) of both specialisations',
    'tie B: harness/remover.cpp interpreter (ASan+UBSan+LSan), the case generator tools/remover_domain.py',
    'modelled not verified: the targets (CallbackList/EventDispatcher/EventQueue add/remove/dispatch are C01/C04 territory; here they are '
    'ordered listener containers), weak handles as "expired iff detached" (no listener runs while a remover operation is in progress), '
    'itemListMutex as a no-op (sequential histories), std::vector move leaving the source empty',
]

VARIANTS_QUICK = [dict(name='remover_gxx17', src='remover.cpp')]
VARIANTS_THOROUGH = VARIANTS_QUICK + [
    dict(name='remover_clang11', src='remover.cpp', compiler='clang++', std='c++11'),
    dict(name='remover_gxx20_O2', src='remover.cpp', std='c++20', opt='-O2'),
]


def build(ctx, specs):
    res = vlib.build_many(ctx, specs)
    bins = {}
    for s in specs:
        path, err = res[s['name']]
        if path is None:
            raise RuntimeError('harness remover.cpp (%s) does not compile against /repo: %s' % (s['name'], err[-1500:]))
        bins[s['name']] = path
    return bins


def corpus_cases():
    d = os.path.join(vlib.ROOT, 'corpus', 'remover')
    out = []
    if os.path.isdir(d):
        for f in sorted(os.listdir(d)):
            if f.endswith('.case'):
                out += rd.parse_case_text(open(os.path.join(d, f)).read())
    return out


def prove_and_extract(ctx):
    """tie A + proofs + extraction.  coq/gen is shared: a concurrent check of another property
    regenerates every leaf from ITS tree (possibly a scratch copy, VERIF_REPO).  If GenRemover.v is
    no longer the text this run generated, the proof step is repeated (bounded)."""
    proof = vlib.coq_prove(ctx, FILES)
    for _ in range(2):
        want = proof.get('leaves', {}).get('GenRemover.v')
        try:
            have = hashlib.sha256(open(os.path.join(vlib.COQ, 'gen', 'GenRemover.v'), 'rb').read()).hexdigest()[:16]
        except OSError:
            have = None
        if want is None or want == have:
            break
        ctx.notes.append('coq/gen/GenRemover.v was rewritten by a concurrent run during the proof step; proof step repeated')
        proof = vlib.coq_prove(ctx, FILES)
    # the driver of this domain only (vlib builds all drivers and stops at the first failing one)
    rc, o, e = vlib.sh('make -C %s _build/driver_remover' % vlib.OCAML, timeout=600)
    if rc != 0 or not os.path.exists(os.path.join(vlib.DRIVERS, 'driver_remover')):
        raise RuntimeError('model driver driver_remover does not build: %s' % (e or o)[-800:])
    return proof


def run(ctx):
    proof = prove_and_extract(ctx)
    bins = build(ctx, VARIANTS_THOROUGH if ctx.tier == 'thorough' else VARIANTS_QUICK)
    n = ctx.budget(6000, 60000)
    cases = corpus_cases()
    ncorpus = len(cases)
    hist = {}
    k = 0
    while len(cases) - ncorpus < n:
        g = rd.Gen(ctx.rng.fork(), rd.KINDS[k % 3])
        k += 1
        cases += g.gen()
        for s, v in g.stats.items():
            hist[s] = hist.get(s, 0) + v
    hist['histories'] = k
    # proof ok: the model as tie A reads the header now is the oracle (it is the proved one);
    # otherwise the model the theorems are proved for
    oracle = 'remover' if proof['ok'] else 'remover-spec'
    what = 'ScopedRemover'
    if not proof['ok']:
        what += ' [proof step failed: %s; oracle = the model the theorems are proved for]' % '; '.join(proof['errors'])[:300]
    stats, model, texts, usable = rd.correspond(ctx, bins, cases, model_domain=oracle, what=what,
                                                also_legal_in=None if proof['ok'] else 'remover')
    for i in usable[ncorpus:ncorpus + 2]:
        ctx.samples.append({'case': texts[i].strip().split('\n'), 'model_trace': model[i][:40]})
    if not proof['ok'] and not ctx.violations:
        ctx.violation('# no failing input found by %d generated cases against the proved model\n# broken obligation(s):\n# %s\n'
                      % (stats['compared'], '\n# '.join(proof['errors'])),
                      'proof obligation no longer checks: ' + '; '.join(proof['errors'])[:400], no_input=True)
    ctx.coverage.update({
        'obligations': proof['obligations'], 'discharged': proof['discharged'],
        'checker_cmd': 'make -C /verif/coq -f Makefile.coq Properties_C15.vo && coqc -Q . EV Properties_C15.v (Print Assumptions parsed)',
        'trusted_base': TRUSTED,
        'theorems': proof['names'], 'axioms_reported': proof['axioms'], 'closed_under_global_context': proof['closed'],
        'proof_errors': proof['errors'], 'generated_leaves': proof.get('leaves', {}),
        'oracle': oracle,
        'evaluations': stats['compared'], 'distinct_nontrivial': stats['distinct_nontrivial'],
        'rule': 'histories from tools/remover_domain.py over 1-3 live removers, 1-2 targets, kinds cl/ed/eq in turn, one case per final '
                'destruction order (+%d corpus cases), each run on the extracted Coq model and on the real ScopedRemover (%s); non-trivial = '
                '>=2 observations that list a listener, a transfer/release command and a destruction; distinct by case text' % (ncorpus, sorted(bins)),
        'traces_validated_against_impl': stats['compared'], 'disagreements': stats['disagreements'],
        'model_error_discarded': stats['model_error_discarded'], 'generator_histogram': hist, 'case_features': stats['features'],
        'header_sha': vlib.sha(os.path.join(vlib.REPO, 'include/eventpp/utilities/scopedremover.h')),
    })
    ctx.assumptions += [
        'sequential histories; no remover operation is started from inside a running listener',
        'targets outlive every remover that points to them; a handle given as `before` is empty/expired or belongs to the list inserted into; '
        'listeners are removed through the key they were added under (cases violating this are rejected by the model and counted)',
        'self-move-assignment is exercised only when the header guards it (tie A: move_assign_self_guard); otherwise it is outside the model',
    ]


def replay(ctx, path):
    bins = build(ctx, VARIANTS_QUICK)
    return rd.replay_file(ctx, path, bins)
