"""C02 — callbacks may mutate or re-invoke the list that is invoking them, safely"""
from props import _cl_common as cc

FILES = ['Properties_C02.v']


def keep(line):
    return not line.startswith('ledger')


def run(ctx):
    cc.run(ctx, FILES, ['nested'], n_quick=2000, n_thorough=100000, keep=keep,
           variants_quick=('multi_functor', 'single_stdfunction'),
           what='CallbackList (re-entrant programs)')


def replay(ctx, path):
    return cc.replay(ctx, path, keep=keep)
