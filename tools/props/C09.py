"""C09 — Exceptions propagate and leave every container consistent and leak-free

proof   coq/Properties_C09.v (ExnModel/ExnFault: fault profiles built from coq/gen/GenExn.v + GenCtor.v;
        ExnQueue/ExnQueueProofs: throwing listeners, filters, predicates)
tie A   tools/leaves/exn.py (structural facts), tools/leaves/ctors.py (noexcept flags), tools/leaves/queue.py
tie B   harness/exn.cpp (global operator new + ticking key/payload/callback types on one countdown; ASan+UBSan+LSan)
        against ocaml/driver_exn (extracted models), cases from tools/exn_domain.py + corpus/exn/*.case
"""
import os

import exn_domain as X
import vlib

FILES = ['Properties_C09.v']
LEAVES = ['exn', 'ctors', 'queue']

# Regression probes for the three defects this property found (corpus files carry `# key: <key>`).  All three
# were repaired in /repo (836d4a8, 8bc07e0, df1fc3a): the probes are ON and are ordinary regression cases.  A probe
# switched off is skipped; a disagreement on a probe case is reported with its key, so that a known_findings.json
# entry {"kind":"finding","property":"C09","key":...} would turn it into a KNOWN-FINDING line.
PROBES = {
    'hcl-copy-assign-noexcept': True,
    'scopedremover-add-pushback-throws': True,
    'ordered-enqueue-comparator-throws': True,
}

VARIANTS = {
    'gxx17_map': dict(compiler='g++', std='c++17', defs=['VH_MAP=0']),
    'clang17_hash': dict(compiler='clang++', std='c++17', defs=['VH_MAP=1']),
    'gxx14_hash': dict(compiler='g++', std='c++14', defs=['VH_MAP=1']),
    'clang20_map': dict(compiler='clang++', std='c++20', defs=['VH_MAP=0']),
}
QUICK = ('gxx17_map', 'clang17_hash')
THOROUGH = ('gxx17_map', 'clang17_hash', 'gxx14_hash', 'clang20_map')

TRUSTED = [
    'Coq 8.16.1 kernel (coqc); vm_compute only inside Example lemmas and the computed refutation witnesses; no native_compute',
    'Print Assumptions for every property theorem is re-run and parsed on each check (expected: Closed under the global context)',
    'extraction: ExtrOcamlBasic only; OCaml 4.13.1; ocaml/driver_exn.ml',
    'tie A: tools/leaves/exn.py + clang 14 AST dump of the instantiated member functions (coq/gen/GenExn.v: 28 structural facts — '
    'order of node construction / lock / link, copy-then-swap, delegating copy constructor, set-before-splice, CounterGuard objects, '
    'absence of try/catch on the dispatch path, catch-undo-rethrow in the ScopedRemover adders, find-then-splice in OrderedQueueList); '
    'tools/leaves/ctors.py (noexcept of HeterCallbackList assignment); tools/leaves/queue.py (emptyQueue / doCanProcess bodies)',
    'tie B: harness/exn.cpp — replaced global operator new/delete and user types that tick one shared countdown; the countdown is armed around '
    'the single library call only; std::set_terminate handler; ASan+UBSan+LSan; generator tools/exn_domain.py',
    'the fault profiles themselves (which fault points and commits an operation has, in which order) are transcribed by hand from the headers; '
    'tie A pins their order-critical facts, tie B checks their consequences at every fault point the real code reaches; the NUMBER of '
    'allocations / comparisons the standard containers make is measured, never assumed (the model is told the kind of the failing point)',
    'modelled not verified: std::map / std::unordered_map / std::vector / std::list / std::function / std::shared_ptr (their own exception guarantees), '
    'the listener lists at the snapshot level (their pointer level is C01/C02), std::mutex::lock throwing is not modelled',
]


def build_variants(ctx, names):
    specs = [dict(name='exn_' + n, src='exn.cpp', **VARIANTS[n]) for n in names]
    res = vlib.build_many(ctx, specs)
    bins = {}
    for n in names:
        path, err = res['exn_' + n]
        if path is None:
            raise RuntimeError('harness exn.cpp (%s) does not compile against %s: %s' % (n, vlib.REPO, err[-1500:]))
        bins[n] = path
    return bins


def corpus_cases():
    d = os.path.join(vlib.ROOT, 'corpus', 'exn')
    out = []
    if os.path.isdir(d):
        for f in sorted(os.listdir(d)):
            if f.endswith('.case'):
                for c in X.parse_case_text(open(os.path.join(d, f)).read()):
                    if c.get('key') in PROBES and not PROBES[c['key']]:
                        continue
                    c['corpus'] = f
                    out.append(c)
    return out


def run(ctx):
    proof = vlib.coq_prove(ctx, FILES, leaves=LEAVES)
    names = THOROUGH if ctx.tier == 'thorough' else QUICK
    bins = build_variants(ctx, names)
    nfam = ctx.budget(90, 1500)
    nthrow = ctx.budget(500, 20000)
    cases = corpus_cases()
    ncorpus = len(cases)
    hist = {}
    targets = {}
    kinds = [k for k, _ in X.PlanGen.TARGETS]
    for j in range(nfam):
        # every target operation at least twice per run, the rest by weight
        kind, fam = X.plan_family(ctx.rng.fork(), kind=(kinds[j % len(kinds)] if j < 2 * len(kinds) else None))
        targets[kind] = targets.get(kind, 0) + 1
        cases += fam
    for _ in range(nthrow):
        g = X.ThrowGen(ctx.rng.fork())
        cases.append(g.gen())
        for s, v in g.stats.items():
            hist[s] = hist.get(s, 0) + v
    oracle = 'code' if proof['ok'] else 'spec'
    tot = {'generated': 0, 'compared': 0, 'disagreements': 0, 'model_error_discarded': 0, 'distinct_nontrivial': 0, 'features': {},
           'fault_points_exercised': 0, 'faults_thrown': {}, 'no_such_fault_point': 0, 'terminated': 0}
    for vname, binary in bins.items():
        st, model, impl, texts, usable = X.correspond(ctx, vname, binary, cases, oracle=oracle)
        for k in ('generated', 'compared', 'disagreements', 'model_error_discarded', 'fault_points_exercised', 'no_such_fault_point', 'terminated'):
            tot[k] += st[k]
        for k, v in st['faults_thrown'].items():
            tot['faults_thrown'][k] = tot['faults_thrown'].get(k, 0) + v
        tot['distinct_nontrivial'] = max(tot['distinct_nontrivial'], st['distinct_nontrivial'])
        for f, v in st['features'].items():
            tot['features'][f] = tot['features'].get(f, 0) + v
        if not ctx.samples and usable:
            picks = [i for i in usable[ncorpus:] if any(l.startswith('exn ') for l in model[i])][:1] + \
                    [i for i in usable[ncorpus:] if any(l.startswith('caught') for l in model[i])][:1]
            for i in picks:
                ctx.samples.append({'case': texts[i].strip().split('\n'), 'model_trace': model[i][:40], 'impl_trace': impl.get(i, [])[:40]})
    if not proof['ok'] and not ctx.violations:
        ctx.violation('# no failing input found by %d comparisons against the specification oracle (driver_exn spec)\n# broken obligation(s):\n# %s\n'
                      % (tot['compared'], '\n# '.join(proof['errors'])),
                      'proof obligation no longer checks: ' + '; '.join(proof['errors'])[:400], no_input=True)
    ctx.coverage.update({
        'obligations': proof['obligations'], 'discharged': proof['discharged'],
        'checker_cmd': 'make -C /verif/coq -f Makefile.coq Properties_C09.vo && coqc -Q . EV Properties_C09.v (Print Assumptions parsed)',
        'trusted_base': TRUSTED,
        'theorems': proof['names'], 'axioms_reported': proof['axioms'], 'closed_under_global_context': proof['closed'],
        'proof_errors': proof['errors'], 'generated_leaves': proof.get('leaves', {}),
        'evaluations': tot['compared'], 'distinct_nontrivial': tot['distinct_nontrivial'],
        'rule': 'fault plans: %d scenarios from tools/exn_domain.py (prefix + target operation + observations + further use), each with `fault k` for '
                'k = 1..14 and two in-succession variants; %d throwing-listener programs; %d corpus cases first; every case run on the real library '
                '(variants %s) and on the extracted Coq model (%s); for fault plans the harness run is measured first (kind of the failing point) and the '
                'model predicts the rest; non-trivial = a fault fired and >=2 lists/queues observed, or an exception was caught after >=2 listener calls; '
                'distinct by measured case text' % (nfam, nthrow, ncorpus, list(names), oracle),
        'traces_validated_against_impl': tot['compared'], 'disagreements': tot['disagreements'],
        'model_error_discarded': tot['model_error_discarded'],
        'fault_points_fired_in_real_runs': tot['fault_points_exercised'], 'fault_kinds_fired': tot['faults_thrown'],
        'profile_lacked_a_real_fault_kind': tot['no_such_fault_point'], 'std_terminate_seen': tot['terminated'],
        'target_operations': targets, 'generator_histogram': hist, 'case_features': tot['features'],
        'regression_probes': {k: ('on' if v else 'off') for k, v in PROBES.items()},
        'header_sha': {h: vlib.sha(os.path.join(vlib.REPO, 'include/eventpp', h)) for h in
                       ('callbacklist.h', 'eventdispatcher.h', 'eventqueue.h', 'hetercallbacklist.h', 'utilities/scopedremover.h',
                        'utilities/orderedqueuelist.h', 'internal/eventqueue_i.h')},
    })
    ctx.assumptions += [
        'single-threaded histories',
        'one fault per library call (faults in succession: one per call); a fault never fires inside a destructor or a catch handler',
        'listener, filter and predicate bodies are deterministic functions of their activation index; a handle is only used with the list it was issued for',
        'EventDispatcher / EventQueue copy ASSIGNMENT is member-wise (standard-container basic guarantee): after a failed copy only "source untouched, '
        'destination valid and re-assignable" is claimed, its content is not compared',
        'listeners added through Counter/ConditionalRemover are not copied in fault plans (copies share the Data block, so the callback ledger is not per listener)',
    ]


def replay(ctx, path):
    bins = build_variants(ctx, ['gxx17_map'])
    vlib.sh('make -C %s' % vlib.OCAML, timeout=600)
    return X.replay_file(ctx, path, bins)
