"""C12 — Filters and canContinueInvoking gate every dispatch, synchronous or queued"""
import os

import filter_domain as fd
import vlib

FILES = ['Properties_C12.v']

TRUSTED = [
    'Coq 8.16.1 kernel (coqc); vm_compute only inside Example lemmas; no native_compute',
    'Print Assumptions for every property theorem is re-run and parsed on each check (expected: Closed under the global context)',
    'extraction: ExtrOcamlBasic only; OCaml 4.13.1; ocaml/driver_filter.ml (policy a%7!=0 and second mixin a%5!=0 are supplied by the driver exactly as harness/filter.cpp defines them)',
    'tie A: tools/leaves/filter.py + clang 14 AST dump and the header text of dependent callee names (coq/gen/GenFilter.v: mixinBeforeDispatch lambda and result for MixinFilter and MixinHeterFilter, capture by reference, '
    'ForEachMixins::forEach, directDispatch gate / add_lvalue_reference / lookup position, doDispatchQueuedEvent, CallbackList::operator() lambda of the g++>=5 branch, ConditionalFunctor::operator(), ArgumentAdapter::operator())',
    'tie B: harness/filter.cpp interpreter (ASan+UBSan+LSan) over EventQueue<int, void(int&)|void(int)> with MixinFilter (+ a second logging mixin) and HeterEventDispatcher with MixinHeterFilter; generator tools/filter_domain.py',
    'modelled not verified: the filter list and listener lists at the snapshot level (pointer level: C01/C02), the queue as a plain FIFO (slot level: C05), std::function, template argument deduction, '
    'the dispatch numbers / EBegin / EFRemoved markers of the model trace (not observable in the implementation), conditionalFunctor and argumentAdapter as one-line functions',
]

QUICK = ('q_ref', 'q_val_mix2', 'heter_ref')
THOROUGH = ('q_ref', 'q_val_mix2', 'q_ref_mix2', 'q_val', 'heter_ref')
FLAVOURS = ['gate', 'direct', 'gate', 'queued', 'gate', 'direct', 'wrap', 'gate']


def build_variants(ctx, names):
    specs = [dict(name='filter_' + n, src='filter.cpp', defs=fd.VARIANTS[n]['defs']) for n in names]
    res = vlib.build_many(ctx, specs)
    bins = {}
    for n in names:
        path, err = res['filter_' + n]
        if path is None:
            raise RuntimeError('harness filter.cpp (%s) does not compile against the repository: %s' % (n, err[-1500:]))
        bins[n] = path
    return bins


def corpus_cases():
    d = os.path.join(vlib.ROOT, 'corpus', 'filter')
    out = []
    if os.path.isdir(d):
        for f in sorted(os.listdir(d)):
            if f.endswith('.case'):
                out += fd.parse_case_text(open(os.path.join(d, f)).read())
    return out


def run(ctx):
    proof = vlib.coq_prove(ctx, FILES)
    names = THOROUGH if ctx.tier == 'thorough' else QUICK
    bins = build_variants(ctx, names)
    n = ctx.budget(1400, 40000)
    cases = corpus_cases()
    ncorpus = len(cases)
    hist = {}
    for k in range(n):
        g = fd.Gen(ctx.rng.fork(), FLAVOURS[k % len(FLAVOURS)])
        cases.append(g.gen())
        for s, v in g.stats.items():
            hist[s] = hist.get(s, 0) + v
    oracle = 'mech' if proof['ok'] else 'spec'
    tot = {'compared': 0, 'disagreements': 0, 'model_error_discarded': 0, 'distinct_nontrivial': 0, 'features': {}, 'per_variant': {}}
    for vname in names:
        st, model, texts, usable = fd.correspond(ctx, vname, bins[vname], cases, oracle=oracle,
                                                 what='MixinFilter / canContinueInvoking dispatch')
        tot['compared'] += st['compared']
        tot['disagreements'] += st['disagreements']
        tot['model_error_discarded'] += st['model_error_discarded']
        tot['distinct_nontrivial'] = max(tot['distinct_nontrivial'], st['distinct_nontrivial'])
        tot['per_variant'][vname] = {'compared': st['compared'], 'disagreements': st['disagreements'], 'distinct_nontrivial': st['distinct_nontrivial']}
        for f, v in st['features'].items():
            tot['features'][f] = tot['features'].get(f, 0) + v
        if not ctx.samples and usable:
            for i in usable[ncorpus:ncorpus + 2]:
                ctx.samples.append({'variant': vname, 'case': texts[i].strip().split('\n'), 'model_trace': model[i][:40]})
    if not proof['ok'] and not ctx.violations:
        ctx.violation('# no failing input found by %d comparisons against the spec oracle\n# broken obligation(s):\n# %s\n'
                      % (tot['compared'], '\n# '.join(proof['errors'])),
                      'proof obligation no longer checks: ' + '; '.join(proof['errors'])[:400], no_input=True)
    ctx.coverage.update({
        'obligations': proof['obligations'], 'discharged': proof['discharged'],
        'checker_cmd': 'make -C /verif/coq -f Makefile.coq Properties_C12.vo && coqc -Q . EV Properties_C12.v (Print Assumptions parsed)',
        'trusted_base': TRUSTED,
        'theorems': proof['names'], 'axioms_reported': proof['axioms'], 'closed_under_global_context': proof['closed'],
        'proof_errors': proof['errors'], 'generated_leaves': proof.get('leaves', {}),
        'evaluations': tot['compared'], 'distinct_nontrivial': tot['distinct_nontrivial'],
        'rule': 'cases from tools/filter_domain.py flavours %s (+%d corpus cases), each run on the extracted Coq model (%s decisions; prototype kind, second mixin and policy set per variant) '
                'and on the real eventpp (variants %s; the heterogeneous variant runs the queue-free cases); non-trivial = the model trace has >=1 filter call and >=1 listener call '
                '(wrapper cases: >=2 wrapped calls); distinct by case text' % (sorted(set(FLAVOURS)), ncorpus, oracle, list(names)),
        'traces_validated_against_impl': tot['compared'], 'disagreements': tot['disagreements'],
        'model_error_discarded': tot['model_error_discarded'], 'per_variant': tot['per_variant'],
        'generator_histogram': hist, 'case_features': tot['features'],
        'header_sha': {h: vlib.sha(os.path.join(vlib.REPO, 'include/eventpp', h)) for h in
                       ('mixins/mixinfilter.h', 'mixins/mixinheterfilter.h', 'eventdispatcher.h', 'callbacklist.h',
                        'internal/eventpolicies_i.h', 'utilities/conditionalfunctor.h', 'utilities/argumentadapter.h')},
    })
    ctx.assumptions += ['single-threaded histories',
                        'filter and listener bodies are deterministic functions of their activation index',
                        'a listener handle is only used with the event key it was issued for',
                        'canContinueInvoking is a pure function of the argument; the heterogeneous dispatcher takes no such policy (doc/policies.md: Apply: CallbackList, EventDispatcher, EventQueue)',
                        'MixinHeterFilter is exercised on HeterEventDispatcher only (it does not compile over HeterEventQueue: PrototypeList is private there)',
                        'argument values are ints (one argument); filters registered through appendFilter only']


def replay(ctx, path):
    bins = build_variants(ctx, QUICK)
    return fd.replay_file(ctx, path, bins)
