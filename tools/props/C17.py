"""C17 — AnyData holds, moves and destroys its value like the value itself"""
import os

import anydata_domain as ad
import vlib

FILES = ['Properties_C17.v']

TRUSTED = [
    'Coq 8.16.1 kernel (coqc); vm_compute only inside Example lemmas; no native_compute',
    'Print Assumptions for every property theorem is re-run and parsed on each check (expected: Closed under the global context)',
    'extraction: ExtrOcamlBasic only; OCaml 4.13.1; ocaml/driver_anydata.ml (type identity = kind*1000+size, kind 0 not counted)',
    'tie A: tools/leaves/anydata.py + clang 14 AST dump of anydata.h (the enable_if conditions are parsed from the '
    'type clang prints for the SFINAE parameter; shapes of ~AnyData, AnyData(AnyData&&), LargeData(LargeData&&), ~LargeData, '
    'getAddress, isType are checked, anything else is Untranslatable)',
    'tie B: harness/anydata.cpp (Payload<Kind,N> with sizeof N, address-keyed ledger of payload objects, ASan+UBSan+LSan), '
    'the generator tools/anydata_domain.py',
    'modelled not verified: per-type function tables / deleters have distinct addresses (no identical-code folding); '
    'alignment of the byte buffer (payloads with alignof > 8 are not claimed); operator new/delete and std::swap as '
    'allocation / exchange; take = move-construction out of the front slot (takeEvent/peekEvent cannot be instantiated '
    'for an AnyData argument, which is neither default-constructible nor assignable)',
]


def no_where(line):
    return not line.startswith('where')


def gen_cases(ctx, metas, n):
    cases = [c for c in ad.corpus_cases() if c['cap'] in metas]
    ncorpus = len(cases)
    hist = {}
    for k in range(n):
        if k % 10 == 9:
            cases.append(ad.chain_case(ctx.rng.fork(), metas))
            hist['chain_cases'] = hist.get('chain_cases', 0) + 1
            continue
        g = ad.Gen(ctx.rng.fork(), metas)
        cases.append(g.gen())
        for s, v in g.stats.items():
            hist[s] = hist.get(s, 0) + v
    return cases, ncorpus, hist


def compile_break(ctx, proof, errors, caps):
    """the harness does not compile against the current /repo: find the (capacity, size) pairs
    for which an AnyData cannot even be constructed"""
    failing = []
    for cap in caps:
        eff = max(cap, 16)
        for size in (1, eff - 1, eff, eff + 1, eff + 9):
            ok, msg = ad.probe_constructible(ctx, cap, size)
            if not ok:
                failing.append((cap, size, msg))
    return failing


def own_leaf_only(proof):
    """vlib.coq_prove regenerates the leaves of EVERY domain; a leaf of another header that does not
    translate is that domain's business: C17 depends on GenAnyData.v only"""
    foreign = [e for e in proof['errors'] if e.startswith('tie A (leafgen)')]
    if not foreign:
        return proof
    import json
    import sys
    rc, out, err = vlib.sh([sys.executable, os.path.join(vlib.ROOT, 'tools', 'leafgen.py'), '--json', '--only', 'anydata'], timeout=600)
    try:
        info = json.loads(out)
    except ValueError:
        info = {'failed': ['leafgen crashed: ' + (out + err)[-300:]]}
    proof['errors'] = [e for e in proof['errors'] if not e.startswith('tie A (leafgen)')]
    if rc != 0 or info.get('failed'):
        proof['errors'].insert(0, 'tie A (leafgen) could not translate: %s' % json.dumps(info.get('failed')))
    else:
        proof['foreign_leaf_failures_ignored'] = foreign
    proof['ok'] = not proof['errors'] and proof['discharged'] == proof['obligations']
    return proof


def run(ctx):
    proof = own_leaf_only(vlib.coq_prove(ctx, FILES))
    # a value that is trivially destructible but not bitwise-relocatable (it points to itself) must survive moves of its holder
    nself = vlib.fixed_probe(ctx, 'anydata_selfref.cpp', 'selfref all ok',
                             [('g++', 'c++11', '-O1'), ('clang++', 'c++17', '-O2')] + ([('g++', 'c++20', '-O2'), ('clang++', 'c++11', '-O0')] if ctx.tier == 'thorough' else []),
                             'AnyData moves a trivially destructible, self-referential value bitwise')
    ctx.coverage['selfref_probe_builds'] = nself
    caps = ad.CAPS if ctx.tier == 'thorough' else ad.CAPS
    bins, errors = ad.build(ctx, caps)
    sha = vlib.sha(os.path.join(vlib.REPO, 'include/eventpp/utilities/anydata.h'))
    base_cov = {
        'obligations': proof['obligations'], 'discharged': proof['discharged'],
        'checker_cmd': 'make -C /verif/coq -f Makefile.coq Properties_C17.vo && coqc -Q . EV Properties_C17.v (Print Assumptions parsed)',
        'trusted_base': TRUSTED, 'theorems': proof['names'], 'axioms_reported': proof['axioms'],
        'closed_under_global_context': proof['closed'], 'proof_errors': proof['errors'],
        'generated_leaves': proof.get('leaves', {}), 'header_sha': sha,
        'foreign_leaf_failures_ignored': proof.get('foreign_leaf_failures_ignored', []),
    }
    ctx.assumptions += [
        'sequential use of one AnyData / one queue (no concurrent access to the same AnyData)',
        'client discipline mirrored by model and harness: a moved-from or destroyed register is not read '
        '(such commands are rejected on both sides and counted); ledger is only compared at quiescent points '
        '(no moved-from AnyData pending destruction)',
        'payload types are move-constructible, with alignof <= 8, and their constructors do not throw',
    ]
    if errors:
        # the real code cannot be driven at all for some capacity
        if proof['ok']:
            raise RuntimeError('harness anydata.cpp does not compile against /repo although leaves and proofs are intact: %s'
                               % list(errors.values())[0][-1500:])
        failing = compile_break(ctx, proof, errors, sorted(errors))
        for cap, size, msg in failing[:3]:
            case = {'cap': cap, 'large': 16, 'prog': [['make', '0', '0', str(size), '5', 'move'], ['get', '0', '0'], ['istype', '0', '0', str(size)]]}
            t = ad.case_text('0', case)
            m = vlib.run_model('anydata', t, driver='anydata').get('0', [])
            sp = vlib.run_model('anydata-spec', t, driver='anydata').get('0', [])
            ctx.violation(t + '# model (follows the regenerated leaves): %s\n# spec    : %s\n# impl    : does not compile: %s\n# broken obligation(s): %s\n'
                          % (' | '.join(m), ' | '.join(sp), msg, ' ; '.join(proof['errors'])[:600]),
                          'AnyData<%d> cannot be constructed from an object of %d bytes (compile error: %s); the specification stores and returns it'
                          % (cap, size, msg[:160]))
        if not failing:
            ctx.violation('# harness/anydata.cpp does not compile against /repo:\n# %s\n# broken obligation(s):\n# %s\n'
                          % (list(errors.values())[0][-1200:].replace('\n', '\n# '), '\n# '.join(proof['errors'])),
                          'proof obligation no longer checks and the harness does not compile: ' + '; '.join(proof['errors'])[:300], no_input=True)
        ctx.coverage.update(base_cov)
        ctx.coverage.update({'evaluations': 0, 'distinct_nontrivial': 0, 'rule': 'harness did not compile; compile probes per (capacity, size)',
                             'compile_probe_failures': [(c, s) for c, s, _ in failing]})
        return
    metas = {c: ad.meta(b) for c, b in bins.items()}
    n = ctx.budget(2500, 60000)
    cases, ncorpus, hist = gen_cases(ctx, metas, n)
    if proof['ok']:
        stats, model, texts = ad.correspond(ctx, bins, cases, what='AnyData')
    else:
        # a leaf no longer translates or a proof no longer checks: the mechanism model may follow a
        # changed leaf, so the value-semantics SPECIFICATION becomes the oracle of the search
        stats, model, texts = ad.correspond(ctx, bins, cases, keep=no_where, model_mode='anydata-spec', what='AnyData (spec oracle)')
        if not ctx.violations:
            # also look for a disagreement with the mechanism model itself (e.g. `where`)
            stats2, _, _ = ad.correspond(ctx, bins, cases, what='AnyData (model with regenerated leaves)')
            stats['disagreements'] += stats2['disagreements']
        if not ctx.violations:
            ctx.violation('# no failing input found by %d generated cases against the specification oracle\n# broken obligation(s):\n# %s\n'
                          % (stats['compared'], '\n# '.join(proof['errors'])),
                          'proof obligation no longer checks: ' + '; '.join(proof['errors'])[:400], no_input=True)
    for i in range(ncorpus, min(ncorpus + 2, len(cases))):
        ctx.samples.append({'case': texts[str(i)].strip().split('\n'), 'model_trace': model.get(str(i), [])[:40]})
    ctx.coverage.update(base_cov)
    ctx.coverage.update({
        'evaluations': stats['compared'], 'distinct_nontrivial': stats['distinct_nontrivial'],
        'rule': 'cases from tools/anydata_domain.py (+%d corpus cases), each run on the extracted Coq model and on the real '
                'eventpp::AnyData<cap> / EventQueue<int, void(const AnyData<cap>&)> for cap in %s; payload types %s; '
                'non-trivial = model trace has >=2 values read back (get/deliver) and >=2 isType/addr/ledger results; distinct by case text'
                % (ncorpus, list(sorted(bins)), {c: ['%d:%d' % t for t in metas[c]['types']] for c in sorted(metas)}),
        'traces_validated_against_impl': stats['compared'], 'disagreements': stats['disagreements'],
        'model_nocompile_or_fault': stats['model_nocompile_or_fault'],
        'generator_histogram': hist, 'case_features': stats['features'],
        'sizeof_LargeData': {c: metas[c]['large'] for c in metas}, 'effective_capacity': {c: metas[c]['eff'] for c in metas},
    })


def replay(ctx, path):
    return ad.replay_file(ctx, path)
