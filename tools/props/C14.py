"""C14 — Heterogeneous classes route by prototype and never confuse stored types

proof   coq/Properties_C14.v (HeterModel, HeterProofs, HeterRefine, HeterPif, CallShape) with the leaves
        coq/gen/GenHeter.v (index arithmetic of FindPrototypeBy*FromIndex, the two facts about doProcessIf)
        and coq/gen/GenDisp.v (call shapes of the heterogeneous enqueue / dispatch, DefaultGetEvent)
tie B   extracted model (ocaml/driver_heter) against harness/heter.cpp driving the real HeterCallbackList,
        HeterEventDispatcher and HeterEventQueue: several prototype lists, keys int / std::string
        (ArgumentPassingIncludeEvent), g++ and clang++, -std=c++17/20, ASan+UBSan
break   a broken obligation / untranslatable leaf switches the oracle to the extracted SPECIFICATION"""
import os

import heter_domain as hd
import vlib

FILES = ['Properties_C14.v']
LEVEL = 'proof'

QUICK_VARIANTS = ['excl_g17', 'excl1_c17', 'incl_g20', 'incl_c17']
THOROUGH_VARIANTS = ['excl_g17', 'excl1_c17', 'incl_g20', 'incl_c17', 'incl1_g17', 'excl_c20']
FLAVOURS = ['mixed', 'pif', 'route']

TRUSTED = [
    'Coq 8.16.1 kernel (coqc); vm_compute only inside Example lemmas and the two *_refuted witnesses; no native_compute',
    'Print Assumptions for every property theorem is re-run and parsed on each check (expected: Closed under the global context)',
    'extraction: ExtrOcamlBasic only; OCaml 4.13.1; ocaml/driver_heter.ml',
    'tie A: tools/leaves/heter.py + clang 14 AST dump (coq/gen/GenHeter.v: index arithmetic and guards of FindPrototypeByCallableFromIndex / '
    'FindPrototypeByArgsFromIndex, doProcessIf tag test, order of tag test and typed access, template arguments of the next search, emptyQueue; '
    'cross-checked against the rounds the compiler instantiates for a sample list); tools/leaves/dispatch.py (coq/gen/GenDisp.v: call shapes, DefaultGetEvent)',
    'tie B: harness/heter.cpp interpreter (ASan+UBSan+LSan), generator tools/heter_domain.py; the `callable` table handed to the model is '
    'tools/heter_domain.EXPECTED, compared on every run with the table the freshly built harness computes with eventpp::internal_::CanInvoke',
    'modelled not verified: CanInvoke itself (a table), std::list splice/swap, std::tuple construction/conversion of arguments, the per-prototype '
    'CallbackList at the snapshot level (its pointer level is C01/C02), std::map of the dispatcher, placement new / destructor of BufferedUnion '
    '(a slot is an optional tagged value; wrong-type access is an error flag, in the implementation it is what ASan/UBSan report)',
]


def build_variants(ctx, names):
    specs = [dict(name='heter_' + n, src='heter.cpp', defs=hd.VARIANTS[n]['defs'], compiler=hd.VARIANTS[n]['compiler'], std=hd.VARIANTS[n]['std'])
             for n in names]
    res = vlib.build_many(ctx, specs)
    bins = {}
    for n in names:
        path, err = res['heter_' + n]
        if path is None:
            raise RuntimeError('harness heter.cpp (%s) does not compile against the repository: %s' % (n, err[-1500:]))
        bins[n] = path
    return bins


def check_tables(ctx, bins):
    """the compile-time facts the model is run with must be the ones the compiler computes"""
    ok = True
    for n, b in bins.items():
        rc, out, err = vlib.sh([b, '--table'], timeout=60)
        t, probs = hd.parse_table(out)
        exp = hd.EXPECTED[hd.VARIANTS[n]['list']]
        if rc != 0 or probs or t != exp:
            ok = False
            diff = ['%s: harness %r expected %r' % (k, t.get('rows', {}).get(k), exp['rows'].get(k))
                    for k in sorted(set(exp['rows']) | set(t.get('rows', {}))) if t.get('rows', {}).get(k) != exp['rows'].get(k)]
            ctx.violation('# harness variant %s\n# %s\n# %s\n' % (n, '\n# '.join(probs), '\n# '.join(diff)),
                          'CanInvoke facts computed by the compiler for harness %s differ from the table the model is run with' % n, no_input=True)
    return ok


def corpus_cases():
    d = os.path.join(vlib.ROOT, 'corpus', 'heter')
    out = []
    if os.path.isdir(d):
        for f in sorted(os.listdir(d)):
            if f.endswith('.case'):
                out += hd.parse_case_text(open(os.path.join(d, f)).read())
    return out


def ref_probe(ctx):
    """prototype lists with void(T &) before void(T): the callbacks an event reaches do not depend on which call consumes it
    (harness/heter_ref.cpp: the same history consumed by process / processOne / processIf)"""
    path, err = vlib.build_cpp(ctx, 'heter_ref', 'heter_ref.cpp')
    if path is None:
        raise RuntimeError('harness heter_ref.cpp does not compile against the repository: %s' % err[-1500:])
    r = ctx.rng.fork()
    cases = []
    for i in range(ctx.budget(120, 2000)):
        n = r.range(1, 9)
        cases.append(' '.join(('s%d' if r.chance(65) else 'i%d') % (100 * i + j) for j in range(n)))
    text = ''.join('case %d\nops: %s\nend\n' % (i, c) for i, c in enumerate(cases))
    rc, out, errt = vlib.sh([path], input=text, timeout=300)
    cur, res = None, {}
    for l in out.splitlines():
        if l.startswith('case '):
            cur = l.split()[1]
            res[cur] = {}
        elif cur is not None and l[:2] in ('A ', 'B ', 'C '):
            res[cur][l[0]] = l[2:].strip()
    bad = [i for i in range(len(cases)) if len(set(res.get(str(i), {'A': 0, 'B': 1}).values())) != 1 or len(res.get(str(i), {})) != 3]
    if rc != 0 and not bad:
        bad = [0]
    for i in bad[:1]:
        rr = res.get(str(i), {})
        # shortest failing history first
        j = min(bad, key=lambda k: len(cases[k]))
        rr = res.get(str(j), {})
        ctx.violation('case %d\nops: %s\nend\n# harness: heter_ref (HeterTuple<void(std::string &), void(std::string), void(int)>)\n'
                      '# consumed by process()      : %s\n# consumed by processOne()   : %s\n# consumed by processIf, ... : %s\n%s'
                      % (j, cases[j], rr.get('A'), rr.get('B'), rr.get('C'), ('# stderr: ' + errt[-400:] + '\n') if rc != 0 else ''),
                      'HeterEventQueue: the callbacks a queued event reaches depend on the call that consumes it (prototypes differing in value category)')
    return {'ref_probe_histories': len(cases), 'ref_probe_mismatches': len(bad)}


def run(ctx):
    proof = vlib.coq_prove(ctx, FILES)
    names = THOROUGH_VARIANTS if ctx.tier == 'thorough' else QUICK_VARIANTS
    bins = build_variants(ctx, names)
    tables_ok = check_tables(ctx, bins)
    probe = ref_probe(ctx)
    n = ctx.budget(1500, 40000)
    cases = corpus_cases()
    ncorpus = len(cases)
    hist = {}
    for k in range(n):
        g = hd.Gen(ctx.rng.fork(), FLAVOURS[k % len(FLAVOURS)])
        cases.append(g.gen())
        for s, v in g.stats.items():
            hist[s] = hist.get(s, 0) + v
    tot = {'generated': 0, 'compared': 0, 'disagreements': 0, 'model_error_discarded': 0, 'distinct_nontrivial': 0, 'features': {}, 'model_sloterror': 0}
    oracle = 'mech' if proof['ok'] else 'spec'
    per_variant = {}
    if tables_ok:
        for vname in names:
            st, model, texts, usable = hd.correspond(ctx, vname, bins[vname], cases, oracle=oracle,
                                                     what='HeterCallbackList / HeterEventDispatcher / HeterEventQueue')
            per_variant[vname] = {'compared': st['compared'], 'disagreements': st['disagreements']}
            for k in ('generated', 'compared', 'disagreements', 'model_error_discarded', 'model_sloterror'):
                tot[k] += st[k]
            tot['distinct_nontrivial'] = max(tot['distinct_nontrivial'], st['distinct_nontrivial'])
            for f, v in st['features'].items():
                tot['features'][f] = tot['features'].get(f, 0) + v
            if not ctx.samples and usable:
                for i in usable[ncorpus:ncorpus + 2]:
                    body = [l for l in texts[i].strip().split('\n') if not l.startswith(('callable', 'np ', 'arity', 'counted'))]
                    ctx.samples.append({'case': body, 'model_trace': model[i][:40]})
    if not proof['ok'] and not ctx.violations:
        ctx.violation('# no failing input found by %d comparisons against the spec oracle\n# broken obligation(s):\n# %s\n'
                      % (tot['compared'], '\n# '.join(proof['errors'])),
                      'proof obligation no longer checks: ' + '; '.join(proof['errors'])[:400], no_input=True)
    ctx.coverage.update({
        'obligations': proof['obligations'], 'discharged': proof['discharged'],
        'checker_cmd': 'make -C /verif/coq -f Makefile.coq Properties_C14.vo && coqc -Q . EV Properties_C14.v (Print Assumptions parsed)',
        'trusted_base': TRUSTED,
        'theorems': proof['names'], 'axioms_reported': proof['axioms'], 'closed_under_global_context': proof['closed'],
        'proof_errors': proof['errors'], 'generated_leaves': proof.get('leaves', {}),
        'evaluations': tot['compared'], 'distinct_nontrivial': tot['distinct_nontrivial'],
        'rule': 'cases from tools/heter_domain.py flavours %s (+%d corpus cases), each run on the extracted Coq model (%s) and on the real heterogeneous '
                'classes in every harness variant %s; non-trivial = model trace has >=2 callback calls, >=1 boolean result and >=1 binding; '
                'distinct by case text' % (FLAVOURS, ncorpus, oracle, list(names)),
        'traces_validated_against_impl': tot['compared'], 'disagreements': tot['disagreements'], 'per_variant': per_variant,
        'variants': {v: '%s -std=%s %s' % (hd.VARIANTS[v]['compiler'], hd.VARIANTS[v]['std'], ' '.join(hd.VARIANTS[v]['defs'])) for v in names},
        'model_error_discarded': tot['model_error_discarded'], 'model_slot_errors': tot['model_sloterror'],
        'generator_histogram': hist, 'case_features': tot['features'], 'value_category_probe': probe,
        'header_sha': {h: vlib.sha(os.path.join(vlib.REPO, 'include/eventpp', h))
                       for h in ('hetercallbacklist.h', 'hetereventdispatcher.h', 'hetereventqueue.h', 'internal/hetercallbacklist_i.h', 'internal/eventpolicies_i.h')},
    })
    ctx.assumptions += ['single-threaded histories',
                        'callback and predicate bodies are deterministic functions of their activation index',
                        'a handle is only used with the event key (or the bare list) it was issued for',
                        'prototype lists in which the stored tuple of a reachable prototype re-selects that prototype when handed out as const lvalues '
                        '(hypothesis of C14_routes_process_fifo; holds for both harness lists: Example C14_table_facts / the own rows 40+p of the table)',
                        'programs that would not compile (a callback / argument list callable with no prototype: static_assert) are outside the statement']


def replay(ctx, path):
    text = open(path).read()
    if '\nops:' in text:
        # a history of the value-category probe (harness/heter_ref.cpp)
        b, err = vlib.build_cpp(ctx, 'heter_ref', 'heter_ref.cpp')
        if b is None:
            raise RuntimeError('harness heter_ref.cpp does not compile against the repository: %s' % err[-1500:])
        case = ''.join(l + '\n' for l in text.splitlines() if l and not l.startswith('#'))
        rc, out, _ = vlib.sh([b], input=case, timeout=120)
        print(out.strip())
        got = [l[2:].strip() for l in out.splitlines() if l[:2] in ('A ', 'B ', 'C ')]
        return 0 if (rc == 0 and len(got) == 3 and len(set(got)) == 1) else 1
    built = {}

    def build(vname):
        if vname not in built:
            built.update(build_variants(ctx, [vname]))
        return built[vname]
    return hd.replay_file(ctx, path, build)
