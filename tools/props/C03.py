"""C03 — listener management and dispatch are thread-safe and linearizable"""
import os

import dc_domain
import lc_domain
import qc_domain
import vlib

FILES = ['Properties_C03.v']

TRUSTED = [
    'Coq 8.16.1 kernel (coqc); vm_compute only in Examples',
    'Print Assumptions re-run and parsed on each check',
    'extraction: ExtrOcamlBasic only; ocaml/driver_clconc.ml',
    'tie A: tools/leaves/callbacklist.py (visit condition, removed-marker guards used by the sections)',
    'tie B: harness/clconc.cpp + harness/vsched.h (cooperative scheduler; the list mutex and currentCounter are the injected primitives); every visible action, call/visit, result and the final content compared',
    'assumed: sequential consistency; mutual exclusion of the injected mutex; std::shared_ptr control-block operations atomic',
    'modelled not verified: the transcription coq/CLConc.lcode_of of each call (tied by correspondence)',
    'tie B for the dispatcher: harness/dispconc.cpp (real EventDispatcher, listenerMutex = L, each list mutex = M<event>, registered when first locked) against the machine of coq/CLDispConc.v run by coq/CLDispRun.v (ocaml/driver_dispconc.ml); atomics are not scheduling points there; generator and monitors tools/dc_domain.py',
    'tie A for the dispatcher: GenLocks (map accesses under listenerMutex; no member function takes entries out of the map)',
]


def corpus_cases():
    d = os.path.join(vlib.ROOT, 'corpus', 'clconc')
    out = []
    if os.path.isdir(d):
        for f in sorted(os.listdir(d)):
            if f.endswith('.case'):
                out += qc_domain.parse_cases(open(os.path.join(d, f)).read())
    return out


def dispatcher_corpus():
    d = os.path.join(vlib.ROOT, 'corpus', 'dispconc')
    out = []
    if os.path.isdir(d):
        for f in sorted(os.listdir(d)):
            if f.endswith('.case'):
                out += qc_domain.parse_cases(open(os.path.join(d, f)).read())
    return out


def run_dispatcher(ctx):
    """the dispatcher with its two kinds of mutex: schedules replayed on the machine of CLDispConc.v and on the real
    EventDispatcher under the cooperative scheduler"""
    # two builds: std::map, and the map the library selects itself (std::unordered_map for an int key)
    specs = [dict(name='dispconc', src='dispconc.cpp', defs=['VH_MAP=1']), dict(name='dispconc_umap', src='dispconc.cpp', defs=['VH_MAP=2'])]
    res = vlib.build_many(ctx, specs)
    for sp in specs:
        if res[sp['name']][0] is None:
            raise RuntimeError('harness dispconc.cpp (%s) does not compile against /repo: %s' % (sp['name'], res[sp['name']][1][-1500:]))
    cases = dispatcher_corpus()
    n0 = len(cases)
    for _ in range(ctx.budget(1200, 40000)):
        cases.append(dc_domain.gen_case(ctx.rng.fork()))
    half = n0 + (len(cases) - n0) // 2
    st, model, texts = qc_domain.correspond(ctx, res['dispconc'][0], cases[:half], 'EventDispatcher under threads', driver='dispconc', monitors=dc_domain.monitors)
    st2, model2, texts2 = qc_domain.correspond(ctx, res['dispconc_umap'][0], cases[:n0] + cases[half:], 'EventDispatcher (unordered_map) under threads',
                                               driver='dispconc', monitors=dc_domain.monitors)
    for k in ('compared', 'actions', 'disagreements', 'monitor_alarms', 'distinct'):
        st[k] += st2[k]
    walks = sum(1 for c in cases if any(x[0] in ('walk', 'dispatch') for th in c['threads'] for x in th))
    blocked = sum(1 for i, m in model.items() if any(l.startswith('act') for l in m))
    return {'dispatcher_schedules_replayed_on_impl': st['compared'], 'dispatcher_visible_actions_compared': st['actions'],
            'dispatcher_disagreements': st['disagreements'], 'dispatcher_monitor_alarms': st['monitor_alarms'],
            'dispatcher_distinct_nontrivial': st['distinct'], 'dispatcher_corpus_cases': n0, 'dispatcher_schedules_with_walks': walks,
            'dispatcher_variants': ['dispconc (std::map)', 'dispconc_umap (library default map)']}


def run(ctx):
    proof = vlib.coq_prove(ctx, FILES, leaves=['callbacklist', 'locks', 'spinlock'])
    res = vlib.build_many(ctx, [dict(name='clconc', src='clconc.cpp', defs=[])])
    binary, err = res['clconc']
    if binary is None:
        raise RuntimeError('harness clconc.cpp does not compile against /repo: %s' % err[-1500:])
    cases = corpus_cases()
    ncorpus = len(cases)
    for _ in range(ctx.budget(1500, 50000)):
        cases.append(lc_domain.gen_case(ctx.rng.fork()))
    st, model, texts = qc_domain.correspond(ctx, binary, cases, 'CallbackList under threads', driver='clconc', monitors=lc_domain.monitors)
    dst = run_dispatcher(ctx)
    if not proof['ok'] and not ctx.violations:
        ctx.violation('# no failing schedule found by %d replayed schedules\n# broken obligation(s):\n# %s\n' % (st['compared'], '\n# '.join(proof['errors'])),
                      'proof obligation no longer checks: ' + '; '.join(proof['errors'])[:400], no_input=True)
    i = str(min(ncorpus, len(cases) - 1))
    ctx.samples.append({'case': texts[i].strip().split('\n'), 'model_trace': model.get(i, [])[:40]})
    ctx.coverage.update({
        'obligations': proof['obligations'], 'discharged': proof['discharged'],
        'checker_cmd': 'make -C /verif/coq -f Makefile.coq Properties_C03.vo && coqc -Q . EV Properties_C03.v (Print Assumptions parsed)',
        'trusted_base': TRUSTED, 'theorems': proof['names'], 'axioms_reported': proof['axioms'],
        'closed_under_global_context': proof['closed'], 'proof_errors': proof['errors'], 'generated_leaves': proof.get('leaves', {}),
        'evaluations': st['compared'], 'distinct_nontrivial': st['distinct'],
        'rule': 'thread programs (2-4 threads, shared handle registers, append/prepend/insert/remove/ownsHandle/empty/invoke/forEach) under random schedules with bursts '
                '(+%d corpus schedules), each replayed on the extracted Coq model and on the real CallbackList under the cooperative scheduler; monitors on the implementation '
                'trace: no deadlock, no callback twice in the final list, final size = additions - successful removals, no callback visited twice by one traversal; '
                'non-trivial = >= 8 visible actions' % ncorpus,
        'schedules_replayed_on_impl': st['compared'], 'visible_actions_compared': st['actions'], 'disagreements': st['disagreements'],
        'monitor_alarms': st['monitor_alarms'],
        'header_sha': vlib.sha(os.path.join(vlib.REPO, 'include/eventpp/callbacklist.h')),
    })
    ctx.coverage.update(dst)
    ctx.coverage['evaluations'] += dst['dispatcher_schedules_replayed_on_impl']
    ctx.assumptions += ['PARTIAL: see level_note']


def replay(ctx, path):
    res = vlib.build_many(ctx, [dict(name='clconc', src='clconc.cpp', defs=[])])
    binary = res['clconc'][0]
    bad = 0
    for case in qc_domain.parse_cases(open(path).read()):
        t, m, im = qc_domain.run_both(binary, case, 'clconc')
        print('model: ' + ' | '.join(m))
        print('impl : ' + ' | '.join(im))
        if m != im or lc_domain.monitors(im, case):
            bad += 1
    return bad
