"""C06 — concurrent producers and consumers never lose or duplicate an event"""
from props import _qc_common as qc

FILES = ['Properties_C06.v']


def run(ctx):
    qc.run(ctx, FILES, ['c06', 'c06', 'empty'], n_quick=1200, n_thorough=40000, what='EventQueue under threads', fifo=True,
           note='conservation invariant proved in Coq for every program and schedule at the granularity of visible actions (QConcInv.v); '
                'not mechanised: the reduction from instruction-level interleavings to visible-action interleavings, the C++ memory model')


def replay(ctx, path):
    return qc.replay(ctx, path, fifo=True)
