"""C05 — EventQueue consumes every queued event exactly once, in FIFO order"""
from props import _q_common as qc

FILES = ['Properties_C05.v']


def keep(line):
    return not line.startswith('live')


def run(ctx):
    qc.run(ctx, FILES, ['fifo'], n_quick=1500, n_thorough=60000, keep=keep, what='EventQueue (FIFO histories)')


def replay(ctx, path):
    return qc.replay(ctx, path, keep=keep)
