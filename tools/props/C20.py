"""C20 — behaviour is independent of policies, compiler, standard level and prior memory.
The case files of C01/C02 (callback lists), C04 (dispatcher), C05 (queue) and C10 (copy/move with
pre-filled storage) are run on harness binaries covering compiler x optimisation x standard x
policies; every trace must equal the model's single trace (which by the theorems does not depend on
the configuration), hence each other."""
import os

import cl_domain
import q_domain
import vlib
from props import C04 as c04
from props import C10 as c10
from props import _cl_common as cc
from props import _q_common as qc

FILES = ['Properties_C20.v']

# (name, src, compiler, std, opt, defs)
QUICK = [
    ('cl_clang11_O2_single_stdfn', 'cl.cpp', 'clang++', 'c++11', '-O2', ['VH_POLICY=1', 'VH_CB=0', 'VH_FILL=0xFF']),
    ('cl_gxx20_O0_spin_functor', 'cl.cpp', 'g++', 'c++20', '-O0', ['VH_POLICY=2', 'VH_CB=1', 'VH_FILL=0x00']),
    # SpinLock below C++20 in storage that held non-zero bytes: its flag must not depend on what was there
    ('cl_gxx17_O2_spin_functor_ff', 'cl.cpp', 'g++', 'c++17', '-O2', ['VH_POLICY=2', 'VH_CB=1', 'VH_FILL=0xFF']),
    ('disp_clang11_O0_int_spin_ab', 'disp.cpp', 'clang++', 'c++11', '-O0', ['VH_KEY=0', 'VH_ARGMODE=0', 'VH_POLICY=2', 'VH_FILL=0xAB']),
    ('disp_clang14_O0_string_incl_map', 'disp.cpp', 'clang++', 'c++14', '-O0', ['VH_KEY=1', 'VH_ARGMODE=1', 'VH_MAP=1']),
    ('disp_gxx17_O2_hashed_inclref_umap_single', 'disp.cpp', 'g++', 'c++17', '-O2', ['VH_KEY=4', 'VH_ARGMODE=2', 'VH_MAP=2', 'VH_POLICY=1']),
    ('queue_clang17_O2_byvalue', 'queue.cpp', 'clang++', 'c++17', '-O2', ['VH_PROTO=1', 'VH_POLICY=0']),
    ('queue_gxx11_O0_ref_single', 'queue.cpp', 'g++', 'c++11', '-O0', ['VH_PROTO=0', 'VH_POLICY=1']),
    ('copy_clang20_O0_single', 'copymove.cpp', 'clang++', 'c++20', '-O0', ['VH_POLICY=1']),
    ('copy_gxx14_O2_multi', 'copymove.cpp', 'g++', 'c++14', '-O2', ['VH_POLICY=0']),
]


def more_variants():
    out = []
    k = 0
    for comp in ('g++', 'clang++'):
        for std in ('c++11', 'c++14', 'c++17', 'c++20'):
            for opt in ('-O0', '-O2'):
                k += 1
                pol = k % 3
                out.append(('cl_m%d' % k, 'cl.cpp', comp, std, opt, ['VH_POLICY=%d' % pol, 'VH_CB=%d' % (k % 2), 'VH_FILL=%s' % ['0x00', '0xFF', '0xAB'][k % 3]]))
                out.append(('disp_m%d' % k, 'disp.cpp', comp, std, opt, ['VH_KEY=%d' % (k % 5), 'VH_ARGMODE=%d' % (k % 3), 'VH_MAP=%d' % ((k // 2) % 3) if (k % 5) < 3 else 'VH_MAP=0', 'VH_POLICY=%d' % pol]))
                out.append(('queue_m%d' % k, 'queue.cpp', comp, std, opt, ['VH_PROTO=%d' % (k % 2), 'VH_POLICY=%d' % (k % 2)]))
                out.append(('copy_m%d' % k, 'copymove.cpp', comp, std, opt, ['VH_POLICY=%d' % (k % 2)]))
    return out


def run(ctx):
    proof = vlib.coq_prove(ctx, FILES, leaves=['callbacklist', 'dispatch', 'ctors', 'queue', 'anyid'])
    variants = list(QUICK) + (more_variants() if ctx.tier == 'thorough' else [])
    specs = [dict(name=v[0], src=v[1], compiler=v[2], std=v[3], opt=v[4], defs=v[5]) for v in variants]
    res = vlib.build_many(ctx, specs)
    bins = {}
    for v in variants:
        path, err = res[v[0]]
        if path is None:
            raise RuntimeError('harness %s (%s) does not compile: %s' % (v[1], v[0], err[-1200:]))
        bins[v[0]] = (v[1], path)
    # the same small program with reference parameters in every corner of the build matrix: a compiler-specific code path
    # (callbacklist.h has one for compilers that report __GNUC__ < 5, which clang++ does) must not change what listeners get
    nref = vlib.ref_args_probe(ctx, [('g++', 'c++11', '-O0'), ('g++', 'c++17', '-O2'), ('clang++', 'c++11', '-O2'), ('clang++', 'c++17', '-O0')] +
                               ([('g++', 'c++14', '-O1'), ('g++', 'c++20', '-O2'), ('clang++', 'c++14', '-O1'), ('clang++', 'c++20', '-O2')] if ctx.tier == 'thorough' else []))
    ctx.coverage['reference_argument_probe_builds'] = nref
    n = ctx.budget(250, 3000)
    oracle_cl = 'cl' if proof['ok'] else 'cl-spec'
    oracle_q = 'mech' if proof['ok'] else 'spec'
    keep = lambda l: not l.startswith('ledger') and not l.startswith('live')   # noqa: E731
    cl_cases = [c for c in cc.corpus_cases()] + [cl_domain.Gen(ctx.rng.fork(), ['flat', 'nested', 'restructure'][k % 3]).gen() for k in range(n)]
    disp_cases = [c for c in cl_cases if c04.supported(c)]
    q_cases = qc.corpus_cases() + [q_domain.Gen(ctx.rng.fork(), ['fifo', 'ordered'][k % 2]).gen() for k in range(n)]
    copy_cases = [c10.gen_copy_case(ctx.rng.fork()) for _ in range(n)]
    tot = {'compared': 0, 'disagreements': 0}
    per = {}
    distinct = 0
    for name, (src, binary) in bins.items():
        before = len(ctx.violations)
        if src == 'cl.cpp':
            vc = cl_cases if 'VH_CB=0' not in ' '.join([d for v in variants if v[0] == name for d in v[5]]) else [cc.strip_cb1(c) for c in cl_cases]
            st, model, texts, usable = cl_domain.correspond(ctx, {name: binary}, vc, keep=keep, model_domain=oracle_cl, what='configuration %s' % name)
            distinct = max(distinct, st['distinct_nontrivial'])
        elif src == 'disp.cpp':
            st, model, texts, usable = cl_domain.correspond(ctx, {name: binary}, disp_cases, keep=keep, model_domain=oracle_cl, what='configuration %s' % name)
        elif src == 'queue.cpp':
            st, model, texts, usable = q_domain.correspond(ctx, {name: binary}, q_cases, keep=keep, oracle=oracle_q, what='configuration %s' % name)
        else:
            ids = [str(i) for i in range(len(copy_cases))]
            texts = {i: c10.case_text(i, copy_cases[int(i)]) for i in ids}
            oracle = vlib.run_model('spec', ''.join(texts[i] for i in ids), driver='copy')
            usable = [i for i in ids if 'error' not in oracle.get(i, ['error'])]
            impl = vlib.run_impl(binary, texts, usable)
            st = {'compared': len(usable), 'disagreements': 0}
            for i in usable:
                if oracle[i] != impl.get(i):
                    st['disagreements'] += 1
                    if st['disagreements'] <= 1:
                        d = vlib.first_diff(oracle[i], impl.get(i, ['<missing>']))
                        ctx.violation(texts[i] + '# spec: %s\n# impl: %s\n' % (' | '.join(oracle[i]), ' | '.join(impl.get(i, []))),
                                      'configuration %s: queue copy/move differs from the specification at line %s: expected `%s`, got `%s`' % (name, d[0], d[1], d[2]))
        tot['compared'] += st['compared']
        tot['disagreements'] += st['disagreements']
        per[name] = {'compared': st['compared'], 'disagreements': st['disagreements']}
    if not proof['ok'] and not ctx.violations:
        ctx.violation('# no failing input found in %d comparisons\n# broken obligation(s):\n# %s\n' % (tot['compared'], '\n# '.join(proof['errors'])),
                      'proof obligation no longer checks: ' + '; '.join(proof['errors'])[:400], no_input=True)
    ctx.samples.append({'configurations': [list(v[:5]) + v[5] for v in variants[:8]]})
    ctx.coverage.update({
        'obligations': proof['obligations'], 'discharged': proof['discharged'],
        'checker_cmd': 'make -C /verif/coq -f Makefile.coq Properties_C20.vo && coqc -Q . EV Properties_C20.v (Print Assumptions parsed)',
        'trusted_base': cc.TRUSTED + ['g++ 12.2 and clang++ 14 with libstdc++ as the compilers/standard libraries exercised; they are not modelled',
                                      'tie A leaves: callbacklist, dispatch (call shapes, getEvent), ctors (mem-initialiser lists), queue, anyid'],
        'theorems': proof['names'], 'axioms_reported': proof['axioms'], 'closed_under_global_context': proof['closed'],
        'proof_errors': proof['errors'], 'generated_leaves': proof.get('leaves', {}),
        'evaluations': tot['compared'], 'distinct_nontrivial': distinct,
        'rule': 'case files of C01/C02/C10 (callback lists, %d), C04 (dispatcher, %d), C05/C13 (queue, %d), C10 (queue copy/move with pre-filled storage, %d) run on %d harness '
                'configurations (compiler x -O x -std x Threading x Map x Callback x ArgumentPassing x fill byte); each trace compared with the model; non-trivial as in C01'
                % (len(cl_cases), len(disp_cases), len(q_cases), len(copy_cases), len(variants)),
        'configurations': per, 'disagreements': tot['disagreements'],
    })
    ctx.assumptions += ['"any conforming compiler" is claimed only through the explicit parameters of the theorems (evaluation order, implicit move, prior memory, map discipline); the build matrix is evidence, not proof']


def replay(ctx, path):
    text = open(path).read()
    if 'kind ' in text:
        return c10.replay(ctx, path)
    if 'ordered ' in text:
        return qc.replay(ctx, path)
    return c04.replay(ctx, path) + cc.replay(ctx, path)
