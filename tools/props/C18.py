"""C18 — AnyId keys are coherent: equality, ordering and hash agree"""
import hashlib
import os

import anyid_domain as ad
import vlib

FILES = ['Properties_C18.v']
HEADER = os.path.join(vlib.REPO, 'include/eventpp/utilities/anyid.h')

TRUSTED = [
    'Coq 8.16.1 kernel (coqc); vm_compute only inside the Example witnesses; no native_compute',
    'Print Assumptions for every property theorem is re-run and parsed on each check (expected: Closed under the global context)',
    'tie A: tools/leaves/anyid.py + clang 14 AST dump of the INSTANTIATED operator==, operator<, std::hash<AnyId>::operator(), '
    'MakeHash::operator(), compareEqual/compareLessThan (overloads selected by clang for a comparable probe Storage and for EmptyAnyStorage) -> coq/gen/GenAnyId.v; '
    'integer digests read as Z (static_cast<size_t> of a non-negative digest is the identity)',
    'extraction: ExtrOcamlBasic only; OCaml 4.13.1; ocaml/driver_anyid.ml (the `law ... ok` lines are constants justified by the theorems)',
    'tie B: harness/anyid.cpp (test Digester Dig3 with eight values, in the wide variants scaled monotonically over the whole range of unsigned int / size_t, variant-like Storage Val, EmptyAnyStorage; three EventDispatcher instantiations), '
    'ASan+UBSan, the case generator and the direct oracle in tools/anyid_domain.py',
    'modelled not verified: std::map as a list kept sorted by operator< with lower_bound search; std::unordered_map as a bucket table with an arbitrary '
    'fixed bucket function (no rehash) searched with operator==; the stored values\' own == and < as pure total functions (value_order hypothesis); '
    'EventDispatcher as map[key].append / map.find(key) (its CallbackList is the subject of C01/C02)',
]


def build(ctx, tier):
    # the wide variants spread the test digester's eight values over the whole range of the digest type (same order,
    # same trace): digests further apart than half the range
    # the lossy variant has a digest wider than size_t whose conversion to size_t (the hash) is not injective
    specs = [dict(name='anyid_gxx17', src='anyid.cpp'), dict(name='anyid_gxx17_wide64', src='anyid.cpp', defs=['VH_WIDE=2']),
             dict(name='anyid_gxx17_lossyhash', src='anyid.cpp', defs=['VH_WIDE=3'])]
    if tier == 'thorough':
        specs += [dict(name='anyid_clang14_wide32', src='anyid.cpp', compiler='clang++', std='c++14', defs=['VH_WIDE=1'])]
    if tier == 'thorough':
        specs += [dict(name='anyid_clang11', src='anyid.cpp', compiler='clang++', std='c++11'),
                  dict(name='anyid_gxx14_O2', src='anyid.cpp', std='c++14', opt='-O2')]
    res = vlib.build_many(ctx, specs)
    bins = {}
    for s in specs:
        path, err = res[s['name']]
        if path is None:
            raise RuntimeError('harness anyid.cpp (%s) does not compile against /repo: %s' % (s['name'], err[-1500:]))
        bins[s['name']] = path
    return bins


def corpus_cases():
    d = os.path.join(vlib.ROOT, 'corpus', 'anyid')
    out = []
    if os.path.isdir(d):
        for f in sorted(os.listdir(d)):
            if f.endswith('.case'):
                out += ad.parse_case_text(open(os.path.join(d, f)).read())
    return out


def prove_and_extract(ctx):
    """tie A + proofs + extraction: the model driver follows the regenerated leaves"""
    proof = vlib.coq_prove(ctx, FILES)
    # coq/gen is shared: a concurrent check of another property regenerates every leaf from ITS tree.
    # If GenAnyId.v is no longer the text this run generated, prove again (bounded).
    for _ in range(2):
        want = proof.get('leaves', {}).get('GenAnyId.v')
        try:
            have = hashlib.sha256(open(os.path.join(vlib.COQ, 'gen', 'GenAnyId.v'), 'rb').read()).hexdigest()[:16]
        except OSError:
            have = None
        if want is None or want == have:
            break
        ctx.notes.append('coq/gen/GenAnyId.v was rewritten by a concurrent run during the proof step; proof step repeated')
        proof = vlib.coq_prove(ctx, FILES)
    # the driver of this domain only (vlib builds all drivers and stops at the first failing one)
    rc, o, e = vlib.sh('make -C %s _build/driver_anyid' % vlib.OCAML, timeout=600)
    if rc != 0 or not os.path.exists(os.path.join(vlib.DRIVERS, 'driver_anyid')):
        raise RuntimeError('model driver driver_anyid does not build: %s' % (e or o)[-800:])
    return proof


def run(ctx):
    proof = prove_and_extract(ctx)
    bins = build(ctx, ctx.tier)
    n = ctx.budget(500, 20000)
    cases = corpus_cases()
    ncorpus = len(cases)
    hist = {}
    for k in range(n):
        g = ad.Gen(ctx.rng.fork())
        cases.append(g.gen())
        for s, v in g.stats.items():
            hist[s] = hist.get(s, 0) + v
    st, model, texts, usable = ad.correspond(ctx, bins, cases, what='AnyId keys')
    for i in usable[ncorpus:ncorpus + 2]:
        ctx.samples.append({'case': texts[i].strip().split('\n'), 'model_trace': model[i][:30]})
    if not proof['ok'] and not ctx.violations:
        ctx.violation('# no failing input found by %d generated cases (direct oracle on the implementation, and model/implementation comparison)\n'
                      '# broken obligation(s):\n# %s\n' % (st['compared'], '\n# '.join(proof['errors'])),
                      'proof obligation no longer checks: ' + '; '.join(proof['errors'])[:400], no_input=True)
    elif not proof['ok']:
        ctx.notes.append('proof obligation no longer checks: ' + '; '.join(proof['errors'])[:600])
    pairs = max(1, st['pairs'])
    ctx.coverage.update({
        'obligations': proof['obligations'], 'discharged': proof['discharged'],
        'checker_cmd': 'python3 tools/leafgen.py && make -C /verif/coq -f Makefile.coq Properties_C18.vo && coqc -Q . EV Properties_C18.v (Print Assumptions parsed)',
        'trusted_base': TRUSTED,
        'theorems': proof['names'], 'axioms_reported': proof['axioms'], 'closed_under_global_context': proof['closed'],
        'proof_errors': proof['errors'], 'generated_leaves': proof.get('leaves', {}),
        'evaluations': st['compared'], 'distinct_nontrivial': st['distinct_nontrivial'],
        'rule': 'cases from tools/anyid_domain.py (+%d corpus cases): up to 40 ids over 4 source types, value-storing or empty storage; each case run on the extracted Coq model '
                'and on the real AnyId / EventDispatcher (harnesses %s): ==, <, std::hash equality on all ordered pairs, the 8 laws on all triples, dispatch through the default, '
                'std::map and std::unordered_map dispatchers; the direct oracle re-checks the laws and the dispatch results on the implementation trace alone; '
                'non-trivial = at least one pair of distinct values with colliding digests and at least one dispatch that reaches a listener; distinct by case text' % (ncorpus, sorted(bins)),
        'traces_validated_against_impl': st['compared'], 'disagreements': st['disagreements'], 'oracle_failures': st['oracle_failures'],
        'model_error_discarded': st['model_error_discarded'], 'skipped_after_repeated_crashes': st.get('skipped_after_repeated_crashes', 0), 'generator_histogram': hist,
        'pairs_compared': st['pairs'], 'triples_checked': st['triples'],
        'pairs_colliding_distinct': st['pairs_colliding_distinct'], 'collision_rate_pct': round(100.0 * st['pairs_colliding_distinct'] / pairs, 1),
        'pairs_equal_across_types': st['pairs_equal_across_types'],
        'dispatches': st['dispatches'], 'dispatches_reaching_listeners': st['dispatches_reaching_listeners'],
        'header_sha': vlib.sha(HEADER),
    })
    ctx.assumptions += [
        'the stored values\' own operator== is an equivalence and operator< a strict weak order whose incomparability is == (value_order), or the Storage has neither (EmptyAnyStorage); '
        'a Storage with only one of the two operators is outside the property',
        'comparisons of stored values are pure and total; digests are integers (DigestType convertible to size_t, non-negative)',
        'maps are modelled: no rehash/rebalancing, fixed bucket function',
    ]


def replay(ctx, path):
    proof = prove_and_extract(ctx)       # the model must follow the tree as it is now
    if not proof['ok']:
        print('proof: ' + '; '.join(proof['errors'])[:600])
    bins = build(ctx, 'quick')
    return ad.replay_file(ctx, path, bins)
