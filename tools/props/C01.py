"""C01 — CallbackList invokes exactly the current callbacks, once each, in list order"""
from props import _cl_common as cc

FILES = ['Properties_C01.v']


def keep(line):
    return not line.startswith('ledger')


def run(ctx):
    cc.run(ctx, FILES, ['flat'], n_quick=1500, n_thorough=60000, keep=keep, what='CallbackList (flat histories)')


def replay(ctx, path):
    return cc.replay(ctx, path, keep=keep)
