"""C01 — CallbackList invokes exactly the current callbacks, once each, in list order"""
from props import _cl_common as cc

FILES = ['Properties_C01.v']


def keep(line):
    return not line.startswith('ledger')


def run(ctx):
    cc.run(ctx, FILES, ['flat', 'flat', 'nested'], n_quick=1800, n_thorough=60000, keep=keep, what='CallbackList (flat histories, one third re-entrant)')


def replay(ctx, path):
    return cc.replay(ctx, path, keep=keep)
