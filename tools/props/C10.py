"""C10 — copies are independent, moves transfer, swaps exchange; results fully functional.
Two correspondences: (a) queue objects (EventQueue+MixinFilter, HeterEventQueue) constructed in
storage pre-filled with 0x00 / 0xFF / 0xAB against coq/CopyModel.v; (b) callback lists under
copy/move/assign/swap/destroy (flavour `restructure` of the cl domain) against coq/CLModel.v."""
import os

import cl_domain
import vlib
from props import _cl_common as cc

FILES = ['Properties_C10.v']


def keep(line):
    return not line.startswith('ledger')


def case_text(cid, case):
    return 'case %s\nkind %s\nfill %d\nn %d\nmain : %s\nend\n' % (cid, case['kind'], case['fill'], case['n'], ' ; '.join(' '.join(c) for c in case['main']))


def parse_cases(text):
    out, cur = [], None
    for line in text.splitlines():
        ws = line.split()
        if not ws or ws[0] == '#':
            continue
        if ws[0] == 'case':
            cur = {'kind': 'eq', 'fill': 0, 'n': 3, 'main': []}
            out.append(cur)
        elif ws[0] in ('kind',):
            cur['kind'] = ws[1]
        elif ws[0] in ('fill', 'n'):
            cur[ws[0]] = int(ws[1])
        elif ws[0] == 'main':
            cur['main'] = cl_domain.split_cmds(ws[2:])
    return out


def gen_copy_case(r):
    kind = r.pick(['eq', 'eq', 'heq', 'heq'])
    nk = 4 if kind == 'heq' else 3        # heq: key = 2 * event + prototype
    n = r.range(2, 4)
    alive = [True] + [False] * (n - 1)
    held = {i: [] for i in range(n)}       # guards in flight per object (stack of w)
    main = []
    owner = []                             # handle register -> (object, key) that owns its node, or None (stale)

    def app(o, k):
        owner.append((o, k))
        main.append(['append', str(o), str(k), str(r.range(1, 9))])

    def retarget(f):
        for h in range(len(owner)):
            if owner[h] is not None:
                owner[h] = f(owner[h])

    def look(o):
        # what the handles say about object o after a structural operation (ownsHandle is only there for kind eq;
        # removeListener only with a handle the object owns: a foreign handle is outside the contract)
        mine = [h for h in range(len(owner)) if owner[h] is not None and owner[h][0] == o]
        if kind == 'eq' and owner:
            for h in ([r.pick(mine)] if mine else []) + [r.below(len(owner))]:
                k = owner[h][1] if owner[h] is not None and r.chance(80) else r.below(nk)
                main.append(['owns', str(o), str(k), str(h)])
        if mine and r.chance(50):
            h = r.pick(mine)
            main.append(['remove', str(o), str(owner[h][1]), str(h)])
            owner[h] = None

    for _ in range(r.range(2, 6)):
        app(0, r.below(nk))
    if kind == 'eq':
        for _ in range(r.below(3)):
            main.append(['addfilter', '0', str(r.range(1, 9)), str(1 if r.chance(70) else 0)])
    for _ in range(r.range(10, 30)):
        live = [i for i in range(n) if alive[i]]
        dead = [i for i in range(n) if not alive[i]]
        opts = [('append', 10), ('enqueue', 14), ('process', 8), ('dispatch', 10), ('emptyq', 12), ('canprocess', 10),
                ('copyassign', 6), ('moveassign', 5), ('swap', 5), ('look', 8)]
        if kind == 'eq':
            opts.append(('addfilter', 4))
        if dead:
            opts += [('copyctor', 14), ('movector', 12), ('new', 3)]
        if len(live) > 1 and any(not held[i] for i in live):
            opts.append(('destroy', 4))
        opts.append(('guardbegin', 9))
        if any(held[i] for i in live):
            opts.append(('guardend', 7))
        op = r.weighted(opts)
        o = r.pick(live)
        if op == 'destroy':
            o = r.pick([i for i in live if not held[i]])
        if op == 'guardbegin':
            w = r.pick([0, 1, 1])
            held[o].append(w)
            main.append(['guardbegin', str(o), str(w)])
            continue
        if op == 'guardend':
            o = r.pick([i for i in live if held[i]])
            main.append(['guardend', str(o), str(held[o].pop())])
            continue
        if op == 'append':
            app(o, r.below(nk))
        elif op == 'look':
            look(o)
        elif op == 'addfilter':
            main.append(['addfilter', str(o), str(r.range(1, 9)), str(1 if r.chance(70) else 0)])
        elif op == 'enqueue':
            main.append(['enqueue', str(o), str(r.below(nk)), str(r.range(1, 99))])
        elif op == 'dispatch':
            main.append(['dispatch', str(o), str(r.below(nk)), str(r.range(1, 99))])
        elif op in ('process', 'emptyq', 'canprocess'):
            main.append([op, str(o)])
        elif op in ('copyassign', 'moveassign', 'swap'):
            d = o if r.chance(30) else r.pick(live)
            probe = op == 'copyassign' and d != o and r.chance(50)
            if probe:
                # touch every key of the source first (a dispatch creates the per-key / per-prototype list even
                # when nobody listens), then change one side after the copy and look at both
                main += [['dispatch', str(o), str(k), str(r.range(1, 99))] for k in range(nk)]
            main.append([op, str(o), str(d)])
            if d != o:
                if op == 'copyassign':
                    retarget(lambda ok: None if ok[0] == d else ok)
                elif op == 'moveassign':
                    retarget(lambda ok: None if ok[0] == d else ((d, ok[1]) if ok[0] == o else ok))
                else:
                    retarget(lambda ok: (d, ok[1]) if ok[0] == o else ((o, ok[1]) if ok[0] == d else ok))
            if probe:
                k = r.below(nk)
                side, other = (o, d) if r.chance(50) else (d, o)
                app(side, k)
                main += [['dispatch', str(other), str(k), str(r.range(1, 99))], ['dispatch', str(side), str(k), str(r.range(1, 99))]]
            if r.chance(60):
                look(o)
            if d != o and r.chance(40):
                look(d)
        elif op in ('copyctor', 'movector'):
            d = r.pick(dead)
            alive[d] = True
            probe = op == 'copyctor' and r.chance(50)
            if probe:
                main += [['dispatch', str(o), str(k), str(r.range(1, 99))] for k in range(nk)]
            main.append([op, str(o), str(d)])
            if op == 'movector':
                retarget(lambda ok: (d, ok[1]) if ok[0] == o else ok)
            if probe:
                k = r.below(nk)
                side, other = (o, d) if r.chance(50) else (d, o)
                app(side, k)
                main += [['dispatch', str(other), str(k), str(r.range(1, 99))], ['dispatch', str(side), str(k), str(r.range(1, 99))]]
            if r.chance(50):
                look(d)
            if r.chance(30):
                look(o)
            # what a fresh object must do
            main += [['emptyq', str(d)], ['enqueue', str(d), str(r.below(nk)), str(r.range(1, 99))], ['canprocess', str(d)]]
        elif op == 'new':
            d = r.pick(dead)
            alive[d] = True
            main.append(['new', str(d)])
        elif op == 'destroy':
            alive[o] = False
            main.append(['destroy', str(o)])
            retarget(lambda ok: None if ok[0] == o else ok)
    for i in range(n):
        while held[i]:
            main.append(['guardend', str(i), str(held[i].pop())])
    for i in range(n):
        if alive[i]:
            main += [['emptyq', str(i)], ['process', str(i)], ['dispatch', str(i), '0', '1'], ['dispatch', str(i), '1', '2']]
    return {'kind': kind, 'fill': r.pick([0, 255, 171]), 'n': n, 'main': main}


def run_copy(ctx, proof_ok):
    specs = [dict(name='cm_multi', src='copymove.cpp', defs=['VH_POLICY=0'], std='c++11'),
             dict(name='cm_single', src='copymove.cpp', defs=['VH_POLICY=1'], std='c++17')]
    if ctx.tier == 'thorough':
        specs += [dict(name='cm_clang20', src='copymove.cpp', defs=['VH_POLICY=0'], std='c++20', compiler='clang++'),
                  dict(name='cm_gxx14_O2', src='copymove.cpp', defs=['VH_POLICY=1'], std='c++14', opt='-O2')]
    res = vlib.build_many(ctx, specs)
    bins = {}
    for s in specs:
        path, err = res[s['name']]
        if path is None:
            raise RuntimeError('harness copymove.cpp (%s) does not compile: %s' % (s['name'], err[-1500:]))
        bins[s['name']] = path
    cases = []
    d = os.path.join(vlib.ROOT, 'corpus', 'copy')
    for f in sorted(os.listdir(d)) if os.path.isdir(d) else []:
        cases += parse_cases(open(os.path.join(d, f)).read())
    ncorpus = len(cases)
    for _ in range(ctx.budget(600, 20000)):
        cases.append(gen_copy_case(ctx.rng.fork()))
    ids = [str(i) for i in range(len(cases))]
    texts = {i: case_text(i, cases[int(i)]) for i in ids}
    alltext = ''.join(texts[i] for i in ids)
    # when the proofs hold the model and the all-initialising specification coincide; the oracle is the spec
    oracle = vlib.run_model('spec', alltext, driver='copy')
    model = vlib.run_model('model', alltext, driver='copy')
    usable = [i for i in ids if 'error' not in oracle.get(i, ['error'])]
    model_vs_spec = sum(1 for i in usable if model[i] != oracle[i])
    compared = bad = 0
    distinct = set()
    for i in usable:
        if sum(1 for l in oracle[i] if l.startswith('call')) >= 2:
            distinct.add(texts[i].split('\n', 1)[1])
    for bname, binary in bins.items():
        impl = vlib.run_impl(binary, texts, usable)
        for i in usable:
            compared += 1
            a, b = oracle[i], impl.get(i, ['<missing>'])
            if a == b:
                continue
            bad += 1
            if bad > 3:
                continue
            case = cases[int(i)]

            def still(c, binary=binary):
                t = case_text('0', c)
                o = vlib.run_model('spec', t, driver='copy').get('0', ['error'])
                if 'error' in o:
                    return False
                im = vlib.run_impl(binary, {'0': t}, ['0'], timeout=60).get('0', ['<missing>'])
                if any('harness-error' in l for l in im):
                    return False          # the shrunk program misuses the harness (e.g. guardend without guardbegin)
                return o != im
            cur = dict(case)
            changed = True
            tests = 0
            while changed and tests < 250:
                changed = False
                for k in range(len(cur['main']) - 1, -1, -1):
                    cand = dict(cur)
                    cand['main'] = cur['main'][:k] + cur['main'][k + 1:]
                    tests += 1
                    if cand['main'] and still(cand):
                        cur = cand
                        changed = True
            t = case_text('0', cur)
            o = vlib.run_model('spec', t, driver='copy').get('0', [])
            m = vlib.run_model('model', t, driver='copy').get('0', [])
            im = vlib.run_impl(binary, {'0': t}, ['0'], timeout=60).get('0', [])
            dd = vlib.first_diff(o, im)
            ctx.violation(t + '# harness: %s\n# spec : %s\n# model(ctor facts from the header): %s\n# impl : %s\n' % (bname, ' | '.join(o), ' | '.join(m), ' | '.join(im)),
                          'queue copy/move (%s): implementation differs from the specification at trace line %s: expected `%s`, implementation `%s`'
                          % (bname, dd[0] if dd else '?', dd[1] if dd else '?', dd[2] if dd else '?'))
    if usable and len(ctx.samples) < 2:
        i = usable[min(ncorpus, len(usable) - 1)]
        ctx.samples.append({'case': texts[i].strip().split('\n'), 'spec_trace': oracle[i][:30]})
    def has(case, f):
        return any(f(c) for c in case['main'])
    dist = {'with_ownsHandle': sum(1 for c in cases if has(c, lambda x: x[0] == 'owns')),
            'with_removeListener_by_handle': sum(1 for c in cases if has(c, lambda x: x[0] == 'remove')),
            'with_self_copy_assignment': sum(1 for c in cases if has(c, lambda x: x[0] == 'copyassign' and x[1] == x[2])),
            'with_self_move_assignment_or_self_swap': sum(1 for c in cases if has(c, lambda x: x[0] in ('moveassign', 'swap') and x[1] == x[2])),
            'kind_heq': sum(1 for c in cases if c['kind'] == 'heq')}
    return {'copy_input_distribution': dist, 'copy_cases': len(cases), 'copy_compared': compared, 'copy_disagreements': bad, 'copy_distinct_nontrivial': len(distinct),
            'copy_model_vs_spec_differences': model_vs_spec, 'copy_variants': sorted(bins)}


def run(ctx):
    proof = vlib.coq_prove(ctx, FILES, leaves=['callbacklist', 'ctors', 'queue'])
    cstats = run_copy(ctx, proof['ok'])
    # callback lists under restructuring
    names = ('multi_functor', 'single_stdfunction') if ctx.tier == 'quick' else ('multi_functor', 'single_stdfunction', 'spinlock_functor')
    bins = cc.build_variants(ctx, names)
    cases = [c for c in cc.corpus_cases()]
    for _ in range(ctx.budget(800, 40000)):
        cases.append(cl_domain.Gen(ctx.rng.fork(), 'restructure').gen())
    tot = {'compared': 0, 'disagreements': 0, 'model_error_discarded': 0, 'distinct_nontrivial': 0}
    for vname, binary in bins.items():
        vc = cases if 'stdfunction' not in vname else [cc.strip_cb1(c) for c in cases]
        st, model, texts, usable = cl_domain.correspond(ctx, {vname: binary}, vc, keep=keep, what='CallbackList copy/move/swap')
        for k in ('compared', 'disagreements', 'model_error_discarded'):
            tot[k] += st[k]
        tot['distinct_nontrivial'] = max(tot['distinct_nontrivial'], st['distinct_nontrivial'])
    if not proof['ok'] and not ctx.violations:
        ctx.violation('# no failing input found\n# broken obligation(s):\n# %s\n' % '\n# '.join(proof['errors']),
                      'proof obligation no longer checks: ' + '; '.join(proof['errors'])[:400], no_input=True)
    ctx.coverage.update({
        'obligations': proof['obligations'], 'discharged': proof['discharged'],
        'checker_cmd': 'make -C /verif/coq -f Makefile.coq Properties_C10.vo && coqc -Q . EV Properties_C10.v (Print Assumptions parsed)',
        'trusted_base': cc.TRUSTED + ['tie A: tools/leaves/ctors.py (mem-initialiser lists of the queue constructors)',
                                      'harness/copymove.cpp: placement-new into pre-filled storage, handles kept per append; ocaml/driver_copy.ml',
                                      'tie A: tools/leaves/ctors.py copy_assign_self_safe (shape of EventDispatcherBase / HeterEventDispatcherBase operator=(const&): member-wise assignment or self test = true, copy-and-swap without a self test = false, anything else refused) and queue_assign_forwards',
                                      'modelled not verified: a standard container copy-assigned from itself keeps its elements (and their addresses)',
                                      'modelled not verified: std::map / unordered_map move leaves the source empty; std::swap by move construction + two move assignments'],
        'theorems': proof['names'], 'axioms_reported': proof['axioms'], 'closed_under_global_context': proof['closed'],
        'proof_errors': proof['errors'], 'generated_leaves': proof.get('leaves', {}),
        'evaluations': tot['compared'] + cstats['copy_compared'],
        'distinct_nontrivial': tot['distinct_nontrivial'] + cstats['copy_distinct_nontrivial'],
        'rule': 'queue copy/move programs (tools/props/C10.py gen_copy_case: 2-4 object slots, storage fill 0x00/0xFF/0xAB, eq with MixinFilter and heq) against the '
                'all-initialising specification; plus callback-list `restructure` cases against the proved CL model; non-trivial = >=2 listener calls (copy) / as C01 (lists)',
        'traces_validated_against_impl': tot['compared'] + cstats['copy_compared'],
        'disagreements': tot['disagreements'] + cstats['copy_disagreements'],
        'list_cases_model_error_discarded': tot['model_error_discarded'],
    })
    ctx.coverage.update(cstats)
    ctx.assumptions += ['sequential; storage pre-fill patterns 0x00, 0xFF, 0xAB stand for "arbitrary bytes" in the correspondence (the theorem quantifies over all values)']


def replay(ctx, path):
    text = open(path).read()
    if 'kind ' in text:
        res = vlib.build_many(ctx, [dict(name='cm_multi', src='copymove.cpp', defs=['VH_POLICY=0'], std='c++11')])
        binary = res['cm_multi'][0]
        bad = 0
        for k, case in enumerate(parse_cases(text)):
            t = case_text(str(k), case)
            o = vlib.run_model('spec', t, driver='copy').get(str(k), [])
            im = vlib.run_impl(binary, {str(k): t}, [str(k)]).get(str(k), [])
            print('spec: ' + ' | '.join(o))
            print('impl: ' + ' | '.join(im))
            bad += (o != im)
        return bad
    return cc.replay(ctx, path, keep=keep)
