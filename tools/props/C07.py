"""C07 — wait/waitFor never miss a wake-up; DisableQueueNotify only defers it"""
from props import _qc_common as qc

FILES = ['Properties_C07.v']


def run(ctx):
    qc.run(ctx, FILES, ['wait'], n_quick=2500, n_thorough=80000, what='EventQueue wait/notify')


def replay(ctx, path):
    return qc.replay(ctx, path)
