"""shared driver for the thread-level queue properties (C06 C07, thread half of C11)"""
import os

import qc_domain
import vlib

TRUSTED = [
    'Coq 8.16.1 kernel (coqc); vm_compute for the per-call discipline check (a decidable property of the transcription) and Examples',
    'Print Assumptions re-run and parsed on each check',
    'extraction: ExtrOcamlBasic only; ocaml/driver_qconc.ml',
    'tie A: tools/leaves/queue.py (read order of emptyQueue, doCanProcess) and tools/leaves/queueconc.py (shape of ~DisableQueueNotify)',
    'tie B (HeterEventQueue): the same harness built with -DVH_HETER=1, programs restricted to the calls HeterEventQueue has',
    'tie B: harness/qconc.cpp + harness/vsched.h (cooperative scheduler: injected Mutex/Atomic/ConditionVariable; one runnable thread; schedule replay); every visible action compared',
    'assumed: sequential consistency over the visible actions; the injected condition variable has the standard semantics (atomic release-and-park, notify_one wakes one parked thread, no spurious wake-ups modelled); time passes only when no thread can run',
    'modelled not verified: the transcription coq/QConc.code_of of each API call (tied by correspondence), listener bodies that do not touch the queue',
]


HETER_OPS = ('enqueue', 'process', 'processone', 'processif', 'clear', 'emptyq', 'wait', 'waitfor')


def corpus_cases():
    d = os.path.join(vlib.ROOT, 'corpus', 'qconc')
    out = []
    if os.path.isdir(d):
        for f in sorted(os.listdir(d)):
            if f.endswith('.case'):
                out += qc_domain.parse_cases(open(os.path.join(d, f)).read())
    return out


def run(ctx, prop_files, flavours, n_quick, n_thorough, what, note=None, fifo=False):
    proof = vlib.coq_prove(ctx, prop_files, leaves=['queue', 'queueconc', 'locks'])
    res = vlib.build_many(ctx, [dict(name='qconc', src='qconc.cpp', defs=[]), dict(name='qconc_heter', src='qconc.cpp', defs=['VH_HETER=1'])])
    binary, err = res['qconc']
    if binary is None:
        raise RuntimeError('harness qconc.cpp does not compile against /repo: %s' % err[-1500:])
    hbinary, herr = res['qconc_heter']
    if hbinary is None:
        raise RuntimeError('harness qconc.cpp (HeterEventQueue) does not compile against /repo: %s' % herr[-1500:])
    cases = corpus_cases()
    ncorpus = len(cases)
    for k in range(ctx.budget(n_quick, n_thorough)):
        cases.append(qc_domain.gen_case(ctx.rng.fork(), flavours[k % len(flavours)]))
    st, model, texts = qc_domain.correspond(ctx, binary, cases, what, fifo=fifo)
    # HeterEventQueue has the same synchronisation skeleton (enqueue / process / processOne / processIf / clearEvents /
    # emptyQueue / wait / waitFor): the same programs, the same schedules, the same model
    hcases = [c for c in cases if all(cmd[0] in HETER_OPS for th in c['threads'] for cmd in th)]
    hst, _, _ = qc_domain.correspond(ctx, hbinary, hcases, what.replace('EventQueue', 'HeterEventQueue'), fifo=fifo)
    st['heter_compared'] = hst['compared']
    st['heter_disagreements'] = hst['disagreements']
    if not proof['ok'] and not ctx.violations:
        ctx.violation('# no failing schedule found by %d replayed schedules\n# broken obligation(s):\n# %s\n' % (st['compared'], '\n# '.join(proof['errors'])),
                      'proof obligation no longer checks: ' + '; '.join(proof['errors'])[:400], no_input=True)
    i = str(min(ncorpus, len(cases) - 1))
    ctx.samples.append({'case': texts[i].strip().split('\n'), 'model_trace': model.get(i, [])[:40]})
    ctx.coverage.update({
        'obligations': proof['obligations'], 'discharged': proof['discharged'],
        'checker_cmd': 'make -C /verif/coq -f Makefile.coq %s && coqc -Q . EV <each property file> (Print Assumptions parsed)' % ' '.join(f.replace('.v', '.vo') for f in prop_files),
        'trusted_base': TRUSTED, 'theorems': proof['names'], 'axioms_reported': proof['axioms'],
        'closed_under_global_context': proof['closed'], 'proof_errors': proof['errors'], 'generated_leaves': proof.get('leaves', {}),
        'evaluations': st['compared'], 'distinct_nontrivial': st['distinct'],
        'rule': 'thread programs (2-4 threads, 1-5 calls each, flavours %s) under random schedules with bursts (+%d corpus schedules); each replayed on the extracted Coq model '
                'and on the real EventQueue under the cooperative scheduler; every visible action, result and consumed event compared; non-trivial = >= 8 visible actions; '
                'monitors on the implementation trace: no event consumed twice, no lost wake-up (single-waiter programs)' % (list(flavours), ncorpus),
        'schedules_replayed_on_impl': st['compared'], 'visible_actions_compared': st['actions'], 'disagreements': st['disagreements'] + st['heter_disagreements'],
        'monitor_alarms': st['monitor_alarms'], 'heter_schedules_replayed': st['heter_compared'], 'heter_disagreements': st['heter_disagreements'], 'schedules_ending_with_all_threads_blocked': st['deadlocks'],
        'schedules_with_unnotified_wake_tokens': st.get('with_unnotified_wake_tokens', 0), 'unnotified_wake_changed_the_run': st.get('unnotified_wake_changed_the_run', 0),
        'header_sha': vlib.sha(os.path.join(vlib.REPO, 'include/eventpp/eventqueue.h')),
    })
    ctx.assumptions += [note or 'PARTIAL: see level_note; the invariant over all interleavings is checked by schedule replay, not proved']


def replay(ctx, path, fifo=False):
    res = vlib.build_many(ctx, [dict(name='qconc', src='qconc.cpp', defs=[])])
    binary = res['qconc'][0]
    bad = 0
    for case in qc_domain.parse_cases(open(path).read()):
        t, m, im = qc_domain.run_both(binary, case)
        print('model: ' + ' | '.join(m))
        print('impl : ' + ' | '.join(im))
        probs = qc_domain.monitors(im, case) + ([x for x, _ in qc_domain.fifo_problems(im, case)] if fifo else [])
        for x in probs:
            print('monitor: ' + x)
        if m != im or probs:
            bad += 1
    return bad
