"""C19 — generation-counter wrap-around never loses or resurrects a callback"""
from props import _cl_common as cc

FILES = ['Properties_C19.v']


def keep(line):
    return not line.startswith('ledger')


def run(ctx):
    cc.run(ctx, FILES, ['wrap'], n_quick=2000, n_thorough=100000, keep=keep,
           variants_quick=('multi_functor', 'single_stdfunction'), what='CallbackList across the counter wrap')


def replay(ctx, path):
    return cc.replay(ctx, path, keep=keep)
