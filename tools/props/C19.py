"""C19 — generation-counter wrap-around never loses or resurrects a callback"""
from props import _cl_common as cc

FILES = ['Properties_C19.v']


def keep(line):
    return not line.startswith('ledger')


def superset_at_the_wrap(spec, impl, case_text):
    """Used only when the refinement proof no longer checks and the snapshot SPECIFICATION has become the oracle of the search
    for a failing input.  The specification skips every callback added during an invocation; the property allows an
    invocation that is in progress when the counter wraps to call such callbacks as well.  So against the specification
    an implementation trace is accepted when, invocation by invocation (calls carry the invocation's argument), it
    contains the specification's calls in order, and every additional call is of a callback that some callback of the
    case adds (i.e. one added during an invocation; a callback id may be added more than once); all other trace lines are
    equal."""
    import re
    def split(tr):
        calls, rest = {}, []
        for l in tr:
            w = l.split()
            if len(w) == 3 and w[0] == 'call':
                calls.setdefault(w[2], []).append(w[1])
            else:
                rest.append(l)
        return calls, rest
    sc, sr = split(spec)
    ic, ir = split(impl)
    if sr != ir or set(sc) - set(ic):
        return False
    added = set()
    for line in case_text.split('\n'):
        if line.startswith('cb '):
            for m in re.finditer(r'\b(?:append|prepend|insert)\s+\d+\s+(\d+)', line):
                added.add(m.group(1))
    for arg, got in ic.items():
        want = sc.get(arg, [])
        k, extras = 0, []
        for c in got:
            if k < len(want) and c == want[k]:
                k += 1
            else:
                extras.append(c)
        if k != len(want) or any(c not in added for c in extras):
            return False
    return True


def run(ctx):
    cc.run(ctx, FILES, ['wrap'], n_quick=2000, n_thorough=100000, keep=keep,
           variants_quick=('multi_functor', 'single_stdfunction'), what='CallbackList across the counter wrap',
           spec_equiv=superset_at_the_wrap)


def replay(ctx, path):
    return cc.replay(ctx, path, keep=keep)
