"""C19 — generation-counter wrap-around never loses or resurrects a callback"""
from props import _cl_common as cc

FILES = ['Properties_C19.v']


def keep(line):
    return not line.startswith('ledger')


def superset_at_the_wrap(spec, impl, case_text):
    """Used only when the refinement proof no longer checks and the snapshot SPECIFICATION has become the oracle of the search
    for a failing input.  The specification skips every callback added during an invocation; the property allows an
    invocation that is in progress when the counter wraps to call such callbacks as well — and what those callbacks then do
    (add, remove, report) changes the rest of the trace in ways the specification does not follow.  So against the
    specification an implementation trace is accepted when it is equal, or when the FIRST line in which it differs is the
    call of a callback that some callback of the case adds (i.e. one added during an invocation): up to there the two agree,
    and from there on the specification is no longer an oracle for this case."""
    import re
    if spec == impl:
        return True
    added = set()
    for line in case_text.split('\n'):
        if line.startswith('cb '):
            for m in re.finditer(r'\b(?:append|prepend|insert)\s+\d+\s+(\d+)', line):
                added.add(m.group(1))
    for j in range(max(len(spec), len(impl))):
        a = spec[j] if j < len(spec) else None
        b = impl[j] if j < len(impl) else None
        if a != b:
            w = (b or '').split()
            return len(w) == 3 and w[0] == 'call' and w[1] in added
    return True


def run(ctx):
    cc.run(ctx, FILES, ['wrap'], n_quick=2000, n_thorough=100000, keep=keep,
           variants_quick=('multi_functor', 'single_stdfunction'), what='CallbackList across the counter wrap',
           spec_equiv=superset_at_the_wrap)


def replay(ctx, path):
    return cc.replay(ctx, path, keep=keep)
