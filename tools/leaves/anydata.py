"""leaves of include/eventpp/utilities/anydata.h -> coq/gen/GenAnyData.v

Translated (the model coq/AnyDataModel.v imports exactly these decisions):
  * the two enable_if conditions of the converting constructors AnyData(T &&)  (inline / heap storage)
  * the effective capacity   maxSize = maxSize_ < sizeof(LargeData) ? sizeof(LargeData) : maxSize_
  * MaxSizeOf<T, Ts...>::value and MaxSizeOf<T>::value
  * isLargerData(), the branch conditions and comparisons of getAddress() / isType<T>() / LargeData::isType<T>()
  * the guards of ~AnyData(), AnyData(AnyData &&) and ~LargeData()
Checked shapes (the model hard-codes them; any other shape => Untranslatable, never a guess):
  * which constructor placement-news the object itself and which a LargeData, and the function table each records
  * ~AnyData calls functions->free(buffer.data()); the move constructor copies other.functions and calls
    functions->moveConstruct(other.buffer.data(), buffer.data())
  * LargeData(LargeData &&) value-initialises data/deleter and swaps both with the source
  * ~LargeData calls deleter(data); LargeData::getAddress returns data
"""
import os
import re
from leafcore import *  # noqa: F401,F403

HEADER = os.path.join(INC, 'eventpp', 'utilities', 'anydata.h')


# ----------------------------------------------------------------------------------------
# a tiny parser for the expression clang prints inside  enable_if<( ... )>::type *

TOK = re.compile(r'\s*(sizeof|<=|>=|==|!=|&&|\|\||[()<>!]|\d+[uUlL]*|[A-Za-z_][A-Za-z_0-9:]*)')
CMP = {'<=': lambda a, b: '(N.leb %s %s)' % (a, b), '<': lambda a, b: '(N.ltb %s %s)' % (a, b),
       '>': lambda a, b: '(N.ltb %s %s)' % (b, a), '>=': lambda a, b: '(N.leb %s %s)' % (b, a),
       '==': lambda a, b: '(N.eqb %s %s)' % (a, b), '!=': lambda a, b: '(negb (N.eqb %s %s))' % (a, b)}


class CondParser:
    """bool-expr over  sizeof(<type mentioning T>) , maxSize , integer literals"""

    def __init__(self, text, tparam):
        self.text = text
        self.pos = 0
        self.tparam = tparam
        self.atoms = set()

    def peek(self):
        m = TOK.match(self.text, self.pos)
        return m.group(1) if m else None

    def take(self, expect=None):
        m = TOK.match(self.text, self.pos)
        if not m or (expect is not None and m.group(1) != expect):
            raise Untranslatable('enable_if condition: unexpected text at %r' % self.text[self.pos:self.pos + 30])
        self.pos = m.end()
        return m.group(1)

    def parse(self):
        e = self.p_or()
        if self.text[self.pos:].strip():
            raise Untranslatable('enable_if condition: trailing text %r' % self.text[self.pos:])
        return e

    def p_or(self):
        e = self.p_and()
        while self.peek() == '||':
            self.take()
            e = '(orb %s %s)' % (e, self.p_and())
        return e

    def p_and(self):
        e = self.p_not()
        while self.peek() == '&&':
            self.take()
            e = '(andb %s %s)' % (e, self.p_not())
        return e

    def p_not(self):
        if self.peek() == '!':
            self.take()
            return '(negb %s)' % self.p_not()
        return self.p_cmp()

    def p_cmp(self):
        # a parenthesised boolean sub-expression or  value CMP value
        save = self.pos
        if self.peek() == '(':
            self.take()
            try:
                e = self.p_or()
                self.take(')')
                if self.peek() not in CMP:
                    return e
            except Untranslatable:
                pass
            self.pos = save
        a = self.p_val()
        op = self.peek()
        if op not in CMP:
            raise Untranslatable('enable_if condition: comparison expected, got %r' % op)
        self.take()
        b = self.p_val()
        return CMP[op](a, b)

    def p_val(self):
        t = self.peek()
        if t == '(':
            self.take()
            v = self.p_val()
            self.take(')')
            return v
        if t == 'sizeof':
            self.take()
            self.take('(')
            depth = 1
            start = self.pos
            while depth:
                if self.pos >= len(self.text):
                    raise Untranslatable('enable_if condition: unbalanced sizeof')
                ch = self.text[self.pos]
                depth += ch == '('
                depth -= ch == ')'
                self.pos += 1
            arg = ' '.join(self.text[start:self.pos - 1].split())
            # the argument must be the constructor's own type parameter, possibly through RemoveCvRef
            arg0 = re.sub(r'^typename\s+', '', arg)
            ok = arg0 in (self.tparam, 'anydata_internal_::RemoveCvRef<%s>::Type' % self.tparam,
                          'RemoveCvRef<%s>::Type' % self.tparam,
                          'eventpp::anydata_internal_::RemoveCvRef<%s>::Type' % self.tparam)
            if not ok:
                raise Untranslatable('enable_if condition: sizeof of %r is not the size of the stored type' % arg)
            self.atoms.add('size')
            return 'size'
        if t is not None and re.match(r'\d', t):
            self.take()
            return '%s%%N' % re.sub(r'[uUlL]+$', '', t)
        if t == 'maxSize':
            self.take()
            self.atoms.add('maxSize')
            return 'maxSize'
        raise Untranslatable('enable_if condition: unsupported operand %r' % t)


# ----------------------------------------------------------------------------------------

def src_of(n, src):
    r = n.get('range') or {}
    b = (r.get('begin') or {}).get('offset')
    e = (r.get('end') or {}).get('offset')
    if b is None or e is None:
        bb = (r.get('begin') or {}).get('expansionLoc') or {}
        ee = (r.get('end') or {}).get('expansionLoc') or {}
        b, e = bb.get('offset'), ee.get('offset')
        if b is None or e is None:
            return ''
        return ' '.join(src[b:e + ee.get('tokLen', 1)].split())
    return ' '.join(src[b:e + r['end'].get('tokLen', 1)].split())


def is_assert(n):
    """the expansion of assert(...): ((cond) ? (void)0 : __assert_fail(...))"""
    s = strip(n)
    if s.get('kind') != 'ConditionalOperator':
        return False
    return any((x.get('name') == '__assert_fail') or ((x.get('referencedDecl') or {}).get('name') == '__assert_fail') for x in walk(s))


def stmts(body):
    """statements of a compound statement without asserts and alias declarations"""
    out = []
    for s in kids(body):
        if is_assert(s):
            continue
        if s.get('kind') == 'DeclStmt' and all(d.get('kind') == 'TypeAliasDecl' for d in kids(s)):
            continue
        out.append(s)
    return out


def single(body, what):
    """the only statement of a branch (a compound statement or the statement itself)"""
    if body.get('kind') == 'CompoundStmt':
        ss = stmts(body)
        if len(ss) != 1:
            raise Untranslatable('%s: expected one statement, found %d' % (what, len(ss)))
        return ss[0]
    return body


def is_buffer_data(n, owner):
    """<owner>.buffer.data()   owner: 'this' or a parameter name"""
    n = strip(n)
    if n.get('kind') not in ('CallExpr', 'CXXMemberCallExpr') or len(kids(n)) != 1:
        return False
    callee = strip(kids(n)[0])
    if member_name(callee) != 'data' or callee.get('kind') == 'DeclRefExpr':
        return False
    b = strip(kids(callee)[0])
    if member_name(b) != 'buffer' or b.get('kind') == 'DeclRefExpr':
        return False
    base = strip(kids(b)[0])
    if owner == 'this':
        return base.get('kind') == 'CXXThisExpr'
    return base.get('kind') == 'DeclRefExpr' and member_name(base) == owner


def this_member(n, name):
    n = strip(n)
    return n.get('kind') == 'MemberExpr' and n.get('name') == name and strip(kids(n)[0]).get('kind') == 'CXXThisExpr'


def param_member(n, param, name):
    n = strip(n)
    if n.get('kind') not in ('MemberExpr', 'CXXDependentScopeMemberExpr') or member_name(n) != name:
        return False
    b = strip(kids(n)[0])
    return b.get('kind') == 'DeclRefExpr' and member_name(b) == param


def ctor_inits(ctor):
    out = {}
    for c in ctor.get('inner', []):
        if isinstance(c, dict) and c.get('kind') == 'CXXCtorInitializer':
            nm = (c.get('anyInit') or {}).get('name')
            out[nm] = kids(c)
    return out


def unparen_list(ns):
    """initialiser argument list: ParenListExpr [...] or the expression itself"""
    if len(ns) == 1 and ns[0].get('kind') == 'ParenListExpr':
        return kids(ns[0])
    return ns


def cond_value(n, atom):
    """c ? a : b  over atoms  ->  Gallina (if .. then .. else ..)"""
    s = strip(n)
    a = atom(s)
    if a is not None:
        return a
    if s.get('kind') == 'ConditionalOperator':
        c, x, y = kids(s)
        return '(if %s then %s else %s)' % (Tr(atom).expr(c), cond_value(x, atom), cond_value(y, atom))
    raise Untranslatable('value expression kind %s' % s.get('kind'))


def cm(text):
    """text placed inside a Coq comment"""
    return text.replace('(*', '( *').replace('*)', '* )')


def leaf_anydata(out):
    src = open(HEADER).read()
    tu = '#include "eventpp/utilities/anydata.h"\ntemplate class eventpp::AnyData<16>;\n'
    trees = clang_ast(tu, 'AnyData')
    pats = [t for t in trees if t.get('kind') == 'ClassTemplateDecl' and t.get('name') == 'AnyData']
    if len(pats) != 1:
        raise Untranslatable('class template AnyData not found')
    recs = [k for k in kids(pats[0]) if k.get('kind') == 'CXXRecordDecl']
    if len(recs) != 1:
        raise Untranslatable('AnyData: pattern record not found')
    pat = recs[0]

    def members(kind, pred=lambda n: True):
        res = []
        for c in kids(pat):
            cands = [c]
            if c.get('kind') == 'FunctionTemplateDecl':
                cands = [k for k in kids(c) if k.get('kind') in ('CXXMethodDecl', 'CXXConstructorDecl')][:1]
            for k in cands:
                if k.get('kind') == kind and pred(k):
                    res.append(k)
        return res

    def body_of(fn):
        b = [c for c in kids(fn) if c.get('kind') == 'CompoundStmt']
        if len(b) != 1:
            raise Untranslatable('%s has no body' % fn.get('name'))
        return b[0]

    # ---------------------------------------------------------------- maxSize
    mv = [c for c in kids(pat) if c.get('kind') == 'VarDecl' and c.get('name') == 'maxSize']
    if len(mv) != 1 or not kids(mv[0]):
        raise Untranslatable('AnyData::maxSize not found')

    def atom_max(n):
        # the class template's own non-type parameter, whatever it is called
        if n.get('kind') == 'DeclRefExpr' and (n.get('referencedDecl') or {}).get('kind') == 'NonTypeTemplateParmDecl':
            return 'maxSize_'
        if n.get('kind') == 'UnaryExprOrTypeTraitExpr' and n.get('name') == 'sizeof':
            at = n.get('argType') or {}
            if (at.get('desugaredQualType') or at.get('qualType')) == 'eventpp::anydata_internal_::LargeData':
                return 'large_size'
            raise Untranslatable('maxSize: sizeof of %s' % at.get('qualType'))
        return None
    eff_max = cond_value(kids(mv[0])[-1], atom_max)

    # ---------------------------------------------------------------- the converting constructors
    conv = []
    for c in kids(pat):
        if c.get('kind') != 'FunctionTemplateDecl':
            continue
        tps = [k.get('name') for k in kids(c) if k.get('kind') == 'TemplateTypeParmDecl']
        for k in kids(c):
            if k.get('kind') == 'CXXConstructorDecl' and any(x.get('kind') == 'CompoundStmt' for x in kids(k)):
                conv.append((tps, k))
                break
    if len(conv) != 2:
        raise Untranslatable('AnyData: expected exactly two constructor templates, found %d' % len(conv))
    conds = {}
    for tps, k in conv:
        if len(tps) != 1:
            raise Untranslatable('AnyData(T&&): expected one template parameter')
        T = tps[0]
        params = [p for p in kids(k) if p.get('kind') == 'ParmVarDecl']
        if len(params) != 2 or params[0].get('type', {}).get('qualType') != T + ' &&':
            raise Untranslatable('AnyData(T&&): unexpected parameter list')
        q = params[1].get('type', {}).get('qualType', '')
        m = re.match(r'^typename std::enable_if<(.*)>::type \*$', q)
        if not m:
            raise Untranslatable('AnyData(T&&): second parameter is not enable_if<...>::type *: %s' % q)
        p = CondParser(m.group(1), T)
        g = p.parse()
        if p.atoms != {'size', 'maxSize'}:
            raise Untranslatable('AnyData(T&&): condition does not compare sizeof(T) with maxSize: %s' % m.group(1))
        # which storage does this constructor build?
        news = find_all(body_of(k), 'CXXNewExpr')
        if len(news) != 1:
            raise Untranslatable('AnyData(T&&): expected one placement new')
        nt = news[0].get('type', {}).get('qualType', '')
        placement = [x for x in kids(news[0]) if is_buffer_data(x, 'this')]
        if len(placement) != 1:
            raise Untranslatable('AnyData(T&&): the new expression does not construct into buffer.data()')
        inits = ctor_inits(k)
        fi = unparen_list(inits.get('functions', []))
        if len(fi) != 1:
            raise Untranslatable('AnyData(T&&): functions is not initialised by one expression')
        ftxt = src_of(fi[0], src).replace(' ', '')
        # the inline constructor builds an object of a local alias of remove_reference<T>::type (whatever the alias is called)
        local_aliases = {d.get('name'): d for d in walk(body_of(k)) if d.get('kind') in ('TypeAliasDecl', 'TypedefDecl')}
        if nt.endswith(' *') and nt[:-2] in local_aliases:
            alias = [local_aliases[nt[:-2]]]
            if len(alias) != 1 or alias[0].get('type', {}).get('qualType') != 'typename std::remove_reference<%s>::type' % T:
                raise Untranslatable('AnyData(T&&): the constructed type is not remove_reference<T>::type')
            if not ftxt.endswith('getAnyDataFunctions<%s>()' % T):
                raise Untranslatable('inline constructor records the table %s' % ftxt)
            which = 'inline'
        elif nt.endswith('LargeData *'):
            if not ftxt.endswith('getAnyDataFunctions<LargeData>()'):
                raise Untranslatable('heap constructor records the table %s' % ftxt)
            which = 'heap'
        else:
            raise Untranslatable('AnyData(T&&): constructs a %s' % nt)
        if which in conds:
            raise Untranslatable('two %s constructors' % which)
        conds[which] = (g, m.group(1))
    if set(conds) != {'inline', 'heap'}:
        raise Untranslatable('AnyData: inline/heap constructor pair not found')

    # ---------------------------------------------------------------- isLargerData
    def one_method(name):
        ms = members('CXXMethodDecl', lambda n: n.get('name') == name and any(x.get('kind') == 'CompoundStmt' for x in kids(n)))
        if len(ms) != 1:
            raise Untranslatable('method %s not found' % name)
        return ms[0]

    def is_table_call(n, arg):
        n = strip(n)
        if n.get('kind') != 'CallExpr':
            return False
        return src_of(n, src).replace(' ', '').endswith('getAnyDataFunctions<%s>()' % arg)

    def atom_fn(tname):
        def atom(n):
            if this_member(n, 'functions'):
                return 'functions'
            if is_table_call(n, 'LargeData'):
                return 'large_functions'
            if tname and is_table_call(n, tname):
                return 'type_functions'
            if n.get('kind') == 'CXXNullPtrLiteralExpr':
                return 'null'
            if n.get('kind') == 'CallExpr' and strip(kids(n)[0]).get('kind') == 'MemberExpr' and strip(kids(n)[0]).get('name') == 'isLargerData' \
                    and strip(kids(strip(kids(n)[0]))[0]).get('kind') == 'CXXThisExpr' and len(kids(n)) == 1:
                return 'is_large'
            return None
        return atom

    ild = one_method('isLargerData')
    ret = single(body_of(ild), 'isLargerData')
    if ret.get('kind') != 'ReturnStmt':
        raise Untranslatable('isLargerData: not a single return')
    is_larger = Tr(atom_fn(None)).expr(kids(ret)[0])
    if 'functions' not in is_larger or 'large_functions' not in is_larger:
        raise Untranslatable('isLargerData does not compare functions with the LargeData table')

    def if_return(fn, what):
        ss = stmts(body_of(fn))
        if len(ss) != 1 or ss[0].get('kind') != 'IfStmt' or len(kids(ss[0])) != 3:
            raise Untranslatable('%s: expected a single if/else' % what)
        c, t, e = kids(ss[0])
        t, e = single(t, what), single(e, what)
        if t.get('kind') != 'ReturnStmt' or e.get('kind') != 'ReturnStmt':
            raise Untranslatable('%s: branches are not returns' % what)
        return c, kids(t)[0], kids(e)[0]

    def large_call(n, name):
        """((const LargeData *)buffer.data())-><name>(...)"""
        n = strip(n)
        if n.get('kind') not in ('CXXMemberCallExpr', 'CallExpr') or len(kids(n)) != 1:
            return False
        callee = strip(kids(n)[0])
        txt = src_of(n, src).replace(' ', '')
        if callee.get('kind') == 'MemberExpr':
            if callee.get('name') != name:
                return False
        elif callee.get('kind') != 'UnresolvedMemberExpr':
            return False
        if not re.match(r'^\(\((const)?LargeData\*\)buffer\.data\(\)\)->%s(<\w+>)?\(\)$' % name, txt):
            return False
        casts = [x for x in walk(callee) if x.get('kind') == 'CStyleCastExpr']
        return len(casts) == 1 and is_buffer_data(kids(casts[0])[0], 'this')

    # ---------------------------------------------------------------- getAddress
    c, t, e = if_return(one_method('getAddress'), 'getAddress')
    ga_cond = Tr(atom_fn(None)).expr(c)
    if is_buffer_data(t, 'this') and large_call(e, 'getAddress'):
        get_address_inline = ga_cond
    elif is_buffer_data(e, 'this') and large_call(t, 'getAddress'):
        get_address_inline = '(negb %s)' % ga_cond
    else:
        raise Untranslatable('getAddress: branches are not buffer.data() / LargeData::getAddress()')

    # ---------------------------------------------------------------- isType
    itm = [k for c0 in kids(pat) if c0.get('kind') == 'FunctionTemplateDecl' and c0.get('name') == 'isType' for k in [c0]]
    if len(itm) != 1:
        raise Untranslatable('isType template not found')
    it_T = [k.get('name') for k in kids(itm[0]) if k.get('kind') == 'TemplateTypeParmDecl']
    it_fn = [k for k in kids(itm[0]) if k.get('kind') == 'CXXMethodDecl'][0]
    if len(it_T) != 1:
        raise Untranslatable('isType: one template parameter expected')
    c, t, e = if_return(it_fn, 'isType')
    it_cond = Tr(atom_fn(None)).expr(c)

    def inline_cmp(n):
        try:
            g0 = Tr(atom_fn(it_T[0])).expr(n)
        except Untranslatable:
            return None
        return g0 if ('type_functions' in g0 and 'functions' in g0.replace('type_functions', '')) else None
    if inline_cmp(t) and large_call(e, 'isType'):
        is_type_sel, is_type_inline = it_cond, inline_cmp(t)
    elif inline_cmp(e) and large_call(t, 'isType'):
        is_type_sel, is_type_inline = '(negb %s)' % it_cond, inline_cmp(e)
    else:
        raise Untranslatable('isType: branches are not a table comparison / LargeData::isType<T>()')

    # ---------------------------------------------------------------- ~AnyData and AnyData(AnyData &&)
    dt = members('CXXDestructorDecl')
    if len(dt) != 1:
        raise Untranslatable('~AnyData not found')
    ss = stmts(body_of(dt[0]))
    if len(ss) != 1 or ss[0].get('kind') != 'IfStmt' or len(kids(ss[0])) != 2:
        raise Untranslatable('~AnyData: expected a single if without else')
    dtor_guard = Tr(atom_fn(None)).expr(kids(ss[0])[0])
    call = single(kids(ss[0])[1], '~AnyData')
    cs = kids(strip(call)) if strip(call).get('kind') == 'CallExpr' else []
    if len(cs) != 2 or strip(cs[0]).get('name') != 'free' or not this_member(kids(strip(cs[0]))[0], 'functions') or not is_buffer_data(cs[1], 'this'):
        raise Untranslatable('~AnyData: body is not functions->free(buffer.data())')

    mc = members('CXXConstructorDecl', lambda n: any(x.get('kind') == 'CompoundStmt' for x in kids(n))
                 and [bool(re.match(r'^AnyData<\w+> &&$', p.get('type', {}).get('qualType') or '')) for p in kids(n) if p.get('kind') == 'ParmVarDecl'] == [True])
    if len(mc) != 1:
        raise Untranslatable('AnyData(AnyData &&) not found')
    other = [p.get('name') for p in kids(mc[0]) if p.get('kind') == 'ParmVarDecl'][0]
    inits = ctor_inits(mc[0])
    fi = unparen_list(inits.get('functions', []))
    if len(fi) != 1 or not param_member(fi[0], other, 'functions'):
        raise Untranslatable('AnyData(AnyData &&): functions is not initialised from other.functions')
    ss = stmts(body_of(mc[0]))
    if len(ss) != 1 or ss[0].get('kind') != 'IfStmt' or len(kids(ss[0])) != 2:
        raise Untranslatable('AnyData(AnyData &&): expected a single if without else')
    move_guard = Tr(atom_fn(None)).expr(kids(ss[0])[0])
    call = strip(single(kids(ss[0])[1], 'AnyData(AnyData &&)'))
    cs = kids(call) if call.get('kind') == 'CallExpr' else []
    if len(cs) != 3 or strip(cs[0]).get('name') != 'moveConstruct' or not this_member(kids(strip(cs[0]))[0], 'functions') \
            or not is_buffer_data(cs[1], other) or not is_buffer_data(cs[2], 'this'):
        raise Untranslatable('AnyData(AnyData &&): body is not functions->moveConstruct(other.buffer.data(), buffer.data())')

    # ---------------------------------------------------------------- LargeData
    ltrees = clang_ast(tu, 'LargeData')
    lrec = [t0 for t0 in ltrees if t0.get('kind') == 'CXXRecordDecl' and t0.get('name') == 'LargeData' and kids(t0)]
    if len(lrec) != 1:
        raise Untranslatable('class LargeData not found')
    lrec = lrec[0]

    def atom_ld(tname):
        def atom(n):
            if this_member(n, 'data'):
                return 'data'
            if this_member(n, 'deleter'):
                return 'deleter'
            if n.get('kind') == 'CXXNullPtrLiteralExpr':
                return 'null'
            if n.get('kind') == 'UnaryOperator' and n.get('opcode') == '&' and tname:
                if src_of(n, src).replace(' ', '') == '&funcDeleteObject<%s>' % tname:
                    return 'type_deleter'
            return None
        return atom

    ldt = [c0 for c0 in kids(lrec) if c0.get('kind') == 'CXXDestructorDecl']
    if len(ldt) != 1:
        raise Untranslatable('~LargeData not found')
    ss = stmts(body_of(ldt[0]))
    if len(ss) != 1 or ss[0].get('kind') != 'IfStmt' or len(kids(ss[0])) != 2:
        raise Untranslatable('~LargeData: expected a single if without else')
    large_dtor_guard = Tr(atom_ld(None)).expr(kids(ss[0])[0])
    if 'data' not in large_dtor_guard:
        raise Untranslatable('~LargeData: the guard does not test data')
    call = strip(single(kids(ss[0])[1], '~LargeData'))
    cs = kids(call) if call.get('kind') == 'CallExpr' else []
    if len(cs) != 2 or not this_member(cs[0], 'deleter') or not this_member(cs[1], 'data'):
        raise Untranslatable('~LargeData: body is not deleter(data)')

    lmc = [c0 for c0 in kids(lrec) if c0.get('kind') == 'CXXConstructorDecl' and any(x.get('kind') == 'CompoundStmt' for x in kids(c0))
           and [p.get('type', {}).get('qualType') for p in kids(c0) if p.get('kind') == 'ParmVarDecl'] == ['eventpp::anydata_internal_::LargeData &&']]
    if len(lmc) != 1:
        raise Untranslatable('LargeData(LargeData &&) not found')
    oth = [p.get('name') for p in kids(lmc[0]) if p.get('kind') == 'ParmVarDecl'][0]
    inits = ctor_inits(lmc[0])
    for f in ('data', 'deleter'):
        iv = unparen_list(inits.get(f, []))
        if len(iv) != 1 or iv[0].get('kind') != 'ImplicitValueInitExpr':
            raise Untranslatable('LargeData(LargeData &&): %s is not value-initialised' % f)
    swapped = set()
    for s in stmts(body_of(lmc[0])):
        s = strip(s)
        cs = kids(s) if s.get('kind') == 'CallExpr' else []
        if len(cs) != 3 or member_name(cs[0]) != 'swap':
            raise Untranslatable('LargeData(LargeData &&): statement is not a swap')
        for f in ('data', 'deleter'):
            if (this_member(cs[1], f) and param_member(cs[2], oth, f)) or (this_member(cs[2], f) and param_member(cs[1], oth, f)):
                swapped.add(f)
                break
        else:
            raise Untranslatable('LargeData(LargeData &&): swap of unexpected operands')
    if swapped != {'data', 'deleter'} or len(stmts(body_of(lmc[0]))) != 2:
        raise Untranslatable('LargeData(LargeData &&): data and deleter are not both swapped exactly once')

    lga = [c0 for c0 in kids(lrec) if c0.get('kind') == 'CXXMethodDecl' and c0.get('name') == 'getAddress']
    if len(lga) != 1:
        raise Untranslatable('LargeData::getAddress not found')
    r0 = single(body_of(lga[0]), 'LargeData::getAddress')
    if r0.get('kind') != 'ReturnStmt' or not this_member(kids(r0)[0], 'data'):
        raise Untranslatable('LargeData::getAddress does not return data')

    lit = [c0 for c0 in kids(lrec) if c0.get('kind') == 'FunctionTemplateDecl' and c0.get('name') == 'isType']
    if len(lit) != 1:
        raise Untranslatable('LargeData::isType not found')
    lT = [k.get('name') for k in kids(lit[0]) if k.get('kind') == 'TemplateTypeParmDecl']
    lfn = [k for k in kids(lit[0]) if k.get('kind') == 'CXXMethodDecl'][0]
    alias = [d for d in walk(body_of(lfn)) if d.get('kind') == 'TypeAliasDecl']
    uname = None
    if len(alias) == 1 and len(lT) == 1 and alias[0].get('type', {}).get('qualType') == 'typename RemoveCvRef<%s>::Type' % lT[0]:
        uname = alias[0].get('name')
    elif len(alias) == 0 and len(lT) == 1:
        uname = lT[0]
    if uname is None:
        raise Untranslatable('LargeData::isType: unexpected alias')
    r0 = single(body_of(lfn), 'LargeData::isType')
    if r0.get('kind') != 'ReturnStmt':
        raise Untranslatable('LargeData::isType: not a single return')
    is_type_large = Tr(atom_ld(uname)).expr(kids(r0)[0])
    if 'type_deleter' not in is_type_large or 'deleter' not in is_type_large.replace('type_deleter', ''):
        raise Untranslatable('LargeData::isType does not compare deleter with &funcDeleteObject<U>')

    # ---------------------------------------------------------------- MaxSizeOf
    mtrees = clang_ast(tu, 'MaxSizeOf')
    specs = [t0 for t0 in mtrees if t0.get('kind') == 'ClassTemplatePartialSpecializationDecl' and t0.get('name') == 'MaxSizeOf']
    step = base = None
    for sp in specs:
        tp = [k for k in kids(sp) if k.get('kind') == 'TemplateTypeParmDecl']
        vars_ = {v.get('name'): v for v in kids(sp) if v.get('kind') == 'VarDecl'}
        if 'value' not in vars_ or not kids(vars_['value']):
            raise Untranslatable('MaxSizeOf: value not found')
        T = tp[0].get('name')

        def is_sizeof_T(n, T=T):
            n = strip(n)
            return n.get('kind') == 'UnaryExprOrTypeTraitExpr' and n.get('name') == 'sizeof' and (n.get('argType') or {}).get('qualType') == T
        if len(tp) == 2:
            for nm in ('otherSize', 'tSize'):
                if nm not in vars_ or not kids(vars_[nm]):
                    raise Untranslatable('MaxSizeOf<T, Ts...>: %s not found' % nm)
            if not is_sizeof_T(kids(vars_['tSize'])[-1]):
                raise Untranslatable('MaxSizeOf: tSize is not sizeof(T)')
            if src_of(kids(vars_['otherSize'])[-1], src).replace(' ', '') != 'MaxSizeOf<%s...>::value' % tp[1].get('name'):
                raise Untranslatable('MaxSizeOf: otherSize is not MaxSizeOf<Ts...>::value')

            def atom_ms(n):
                if n.get('kind') == 'DeclRefExpr' and member_name(n) in ('tSize', 'otherSize'):
                    return member_name(n)
                return None
            step = cond_value(kids(vars_['value'])[-1], atom_ms)
        elif len(tp) == 1:
            if not is_sizeof_T(kids(vars_['value'])[-1]):
                raise Untranslatable('MaxSizeOf<T>::value is not sizeof(T)')
            base = 'tSize'
    if step is None or base is None:
        raise Untranslatable('MaxSizeOf specialisations not found')

    out['GenAnyData.v'] = '''(* GENERATED by tools/leafgen.py from include/eventpp/utilities/anydata.h — do not edit *)
From Coq Require Import NArith Bool.
Local Open Scope N_scope.

(* pointers are compared as numbers; the null pointer is 0 *)
Definition null : N := 0.

(* template <typename T> AnyData(T && object, typename std::enable_if<( %s )>::type * = 0)
   : functions(getAnyDataFunctions<T>())        { new (buffer.data()) U(std::forward<T>(object)); } *)
Definition inline_cond (size maxSize : N) : bool := %s.

(* template <typename T> AnyData(T && object, typename std::enable_if<( %s )>::type * = 0)
   : functions(getAnyDataFunctions<LargeData>()) { new (buffer.data()) LargeData(std::forward<T>(object)); } *)
Definition heap_cond (size maxSize : N) : bool := %s.

(* static constexpr std::size_t maxSize = ... *)
Definition eff_max_size (maxSize_ large_size : N) : N := %s.

(* MaxSizeOf<T, Ts...>::value  (tSize = sizeof(T), otherSize = MaxSizeOf<Ts...>::value)  and  MaxSizeOf<T>::value *)
Definition max_size_step (tSize otherSize : N) : N := %s.
Definition max_size_single (tSize : N) : N := %s.

(* bool isLargerData() const *)
Definition is_larger_data (functions large_functions : N) : bool := %s.

(* getAddress(): true -> buffer.data(), false -> ((const LargeData * )buffer.data())->getAddress() *)
Definition get_address_inline (is_large : bool) : bool := %s.

(* isType<T>(): true -> the table comparison below, false -> LargeData::isType<T>() *)
Definition is_type_sel (is_large : bool) : bool := %s.
Definition is_type_inline (type_functions functions : N) : bool := %s.
Definition is_type_large (deleter type_deleter : N) : bool := %s.

(* ~AnyData(): if(<guard>) functions->free(buffer.data());
   AnyData(AnyData && other) : functions(other.functions): if(<guard>) functions->moveConstruct(other.buffer.data(), buffer.data());
   ~LargeData(): if(<guard>) deleter(data); *)
Definition dtor_guard (functions : N) : bool := %s.
Definition move_guard (functions : N) : bool := %s.
Definition large_dtor_guard (data deleter : N) : bool := %s.
''' % (cm(conds['inline'][1]), conds['inline'][0], cm(conds['heap'][1]), conds['heap'][0], eff_max, step, base,
       is_larger, get_address_inline, is_type_sel, is_type_inline, is_type_large, dtor_guard, move_guard, large_dtor_guard)


LEAVES = [('anydata', leaf_anydata)]
