"""leaves of include/eventpp/utilities/anyid.h -> coq/gen/GenAnyId.v   (property C18)

Translated (from the clang AST of the INSTANTIATED templates, so that clang itself resolves the
SFINAE overloads of compareEqual / compareLessThan and the MakeHash specialisation):

  operator==(AnyId a, AnyId b)            -> eqb  (da db : Z) (veq : bool) : bool
  operator< (AnyId a, AnyId b)            -> ltb  (da db : Z) (vlt : bool) : bool
  std::hash<AnyId>::operator()(value)     -> hash (d : Z) : Z   (through make_hash, the body of the
                                             MakeHash specialisation the call resolves to)
  compareEqual / compareLessThan          -> compare_equal (op_eq : bool), compare_less (op_lt : bool)
                                             (overload chosen for a Storage that HAS == / <) and
                                             fallback_eq, fallback_lt (overload chosen for
                                             EmptyAnyStorage, which has neither)

Atoms: a.getDigest() -> da, b.getDigest() -> db, compareEqual(a.getValue(), b.getValue()) -> veq,
compareLessThan(a.getValue(), b.getValue()) -> vlt (argument order is checked).  The accessors
getDigest()/getValue() must return the members digest/value.  Two instantiations (EmptyAnyStorage and
a comparable probe Storage) are translated and must give the same text.  Anything else: Untranslatable.
"""
import re
from leafcore import *  # noqa: F401,F403

TU = '''#include <string>
#include "eventpp/utilities/anyid.h"
namespace leafprobe {
struct Cmp { int v; Cmp() : v(0) {} template <typename T> Cmp(const T &) : v(0) {} };
inline bool operator == (const Cmp & a, const Cmp & b) { return a.v == b.v; }
inline bool operator < (const Cmp & a, const Cmp & b) { return a.v < b.v; }
using IdE = eventpp::AnyId<std::hash, eventpp::EmptyAnyStorage>;
using IdC = eventpp::AnyId<std::hash, Cmp>;
bool useEqE(const IdE & a, const IdE & b) { return a == b; }
bool useLtE(const IdE & a, const IdE & b) { return a < b; }
bool useEqC(const IdC & a, const IdC & b) { return a == b; }
bool useLtC(const IdC & a, const IdC & b) { return a < b; }
std::size_t useHashE(const IdE & a) { return std::hash<IdE>()(a); }
std::size_t useHashC(const IdC & a) { return std::hash<IdC>()(a); }
}
'''

EMPTY = 'eventpp::EmptyAnyStorage'
PROBE = 'leafprobe::Cmp'


def template_args(fn):
    return [c.get('type', {}).get('qualType') for c in kids(fn) if c.get('kind') == 'TemplateArgument']


def body_of(fn):
    b = [c for c in kids(fn) if c.get('kind') == 'CompoundStmt']
    return b[0] if b else None


def body_expr(fn, what, tr):
    """the Boolean a function body returns: one return statement, or a chain of `if(c) return x;` ... `return y;`"""
    body = body_of(fn)
    if body is None:
        raise Untranslatable('%s: no body' % what)
    st = [x for x in kids(body) if not (x.get('kind') == 'DeclStmt' and kids(x) and
                                       all(d.get('kind') in ('TypeAliasDecl', 'TypedefDecl', 'UsingDecl') for d in kids(x)))]
    if len(st) == 1 and st[0].get('kind') == 'ReturnStmt' and len(kids(st[0])) == 1:
        return tr.expr(kids(st[0])[0])
    return stmts_to_expr(tr, st)


def single_return(fn, what):
    body = body_of(fn)
    if body is None:
        raise Untranslatable('%s: no body' % what)
    # declarations that only name types (using / typedef) do not count
    st = [x for x in kids(body) if not (x.get('kind') == 'DeclStmt' and kids(x) and
                                       all(d.get('kind') in ('TypeAliasDecl', 'TypedefDecl', 'UsingDecl') for d in kids(x)))]
    if len(st) != 1 or st[0].get('kind') != 'ReturnStmt' or len(kids(st[0])) != 1:
        raise Untranslatable('%s: body is not a single return statement' % what)
    return kids(st[0])[0]


def params(fn):
    return [c for c in kids(fn) if c.get('kind') == 'ParmVarDecl']


def nodes(trees):
    for t in trees:
        yield from walk(t)


def instantiations(trees, name, storage):
    """instantiated FunctionDecls `name` whose template arguments mention the storage type"""
    out = []
    for t in nodes(trees):
        if t.get('kind') != 'FunctionTemplateDecl' or t.get('name') != name:
            continue
        for f in kids(t):
            if f.get('kind') == 'FunctionDecl' and f.get('name') == name and storage in template_args(f) and body_of(f) is not None:
                out.append(f)
    return out


def accessor_call(n, param_ids):
    """(member function name, index of the parameter it is called on) for `p.getX()`"""
    n = strip(n)
    if n.get('kind') != 'CXXMemberCallExpr':
        return None
    cs = kids(n)
    if len(cs) != 1:
        return None
    me = strip(cs[0])
    if me.get('kind') != 'MemberExpr':
        return None
    base = [strip(c) for c in kids(me)]
    if len(base) != 1 or base[0].get('kind') != 'DeclRefExpr':
        return None
    pid = base[0].get('referencedDecl', {}).get('id')
    if pid not in param_ids:
        return None
    return me.get('name'), param_ids.index(pid)


def leaf_anyid(out):
    trees = clang_ast(TU, 'eventpp')

    # ---- accessors of the primary template: getDigest() returns digest, getValue() returns value
    def accessor_returns(name, field):
        for t in nodes(trees):
            if t.get('kind') == 'ClassTemplateDecl' and t.get('name') == 'AnyId':
                rec = [c for c in kids(t) if c.get('kind') == 'CXXRecordDecl']
                if not rec:
                    continue
                for m in kids(rec[0]):
                    if m.get('kind') == 'CXXMethodDecl' and m.get('name') == name and body_of(m) is not None:
                        e = strip(single_return(m, name))
                        if e.get('kind') == 'MemberExpr' and e.get('name') == field and \
                                [strip(c).get('kind') for c in kids(e)] == ['CXXThisExpr']:
                            return True
                        raise Untranslatable('%s() does not return the member %s' % (name, field))
        raise Untranslatable('AnyId::%s not found' % name)
    accessor_returns('getDigest', 'digest')
    accessor_returns('getValue', 'value')

    # ---- compareEqual / compareLessThan: the overloads clang selects for each storage
    def compare_overloads(name, opname):
        chosen = {}
        for storage in (EMPTY, PROBE):
            fs = instantiations(trees, name, storage)
            if len(fs) != 1:
                raise Untranslatable('%s<%s>: expected exactly one selected overload, found %d' % (name, storage, len(fs)))
            chosen[storage] = fs[0]
        # fallback: a boolean literal
        e = strip(single_return(chosen[EMPTY], name + ' fallback'))
        if e.get('kind') != 'CXXBoolLiteralExpr':
            raise Untranslatable('%s fallback does not return a boolean literal' % name)
        fallback = 'true' if e.get('value') else 'false'
        # comparable storage: an expression over `a <op> b` of its two parameters, in order
        f = chosen[PROBE]
        pids = [p.get('id') for p in params(f)]
        if len(pids) != 2:
            raise Untranslatable('%s: expected two parameters' % name)

        def atom(n):
            k = n.get('kind')
            if k == 'BinaryOperator' and n.get('opcode') == opname:
                ops = [strip(c) for c in kids(n)]
            elif k == 'CXXOperatorCallExpr' and len(kids(n)) == 3 and \
                    strip(kids(n)[0]).get('referencedDecl', {}).get('name') == 'operator' + opname:
                ops = [strip(c) for c in kids(n)[1:]]
            else:
                if k in ('BinaryOperator', 'CXXOperatorCallExpr') and \
                        any(strip(c).get('kind') == 'DeclRefExpr' and strip(c).get('referencedDecl', {}).get('id') in pids for c in kids(n)):
                    raise Untranslatable('%s: unsupported comparison of the stored values' % name)
                return None
            ids = [o.get('referencedDecl', {}).get('id') if o.get('kind') == 'DeclRefExpr' else None for o in ops]
            if ids == pids:
                return 'op'
            raise Untranslatable('%s: operands of %s are not (a, b) in this order' % (name, opname))
        txt = Tr(atom, 'Z').expr(single_return(f, name))
        return txt, fallback, chosen[EMPTY].get('id'), chosen[PROBE].get('id')

    ce_txt, fb_eq, ce_empty_id, ce_probe_id = compare_overloads('compareEqual', '==')
    cl_txt, fb_lt, cl_empty_id, cl_probe_id = compare_overloads('compareLessThan', '<')

    # ---- operator== / operator< of AnyId, every instantiation
    def operator_body(name, cmpname, atomname, callee_ids):
        texts = []
        for storage in (EMPTY, PROBE):
            fs = [f for f in instantiations(trees, name, storage)
                  if any('AnyId' in (p.get('type', {}).get('qualType') or '') for p in params(f))]
            if len(fs) != 1:
                raise Untranslatable('%s for AnyId<%s>: expected one instantiation, found %d' % (name, storage, len(fs)))
            f = fs[0]
            pids = [p.get('id') for p in params(f)]
            if len(pids) != 2:
                raise Untranslatable('%s: expected two parameters' % name)

            def atom(n, pids=pids, storage=storage):
                acc = accessor_call(n, pids)
                if acc is not None:
                    if acc[0] == 'getDigest':
                        return ('da', 'db')[acc[1]]
                    raise Untranslatable('%s: %s() used outside compare*' % (name, acc[0]))
                if n.get('kind') == 'CallExpr':
                    cs = kids(n)
                    callee = strip(cs[0])
                    ref = callee.get('referencedDecl', {}) if callee.get('kind') == 'DeclRefExpr' else {}
                    if ref.get('name') != cmpname:
                        raise Untranslatable('%s: call of %s' % (name, ref.get('name')))
                    if ref.get('id') != callee_ids[storage]:
                        raise Untranslatable('%s: %s resolves to an unexpected overload' % (name, cmpname))
                    args = [accessor_call(c, pids) for c in cs[1:]]
                    if args != [('getValue', 0), ('getValue', 1)]:
                        raise Untranslatable('%s: arguments of %s are not (a.getValue(), b.getValue())' % (name, cmpname))
                    return atomname
                if n.get('kind') in ('DeclRefExpr', 'MemberExpr', 'CXXMemberCallExpr', 'CXXOperatorCallExpr', 'CXXConstructExpr'):
                    raise Untranslatable('%s: unsupported operand %s' % (name, n.get('kind')))
                return None
            texts.append(body_expr(f, name, Tr(atom, 'Z')))
        if len(set(texts)) != 1:
            raise Untranslatable('%s: instantiations differ: %s' % (name, texts))
        return texts[0]

    eq_txt = operator_body('operator==', 'compareEqual', 'veq', {EMPTY: ce_empty_id, PROBE: ce_probe_id})
    lt_txt = operator_body('operator<', 'compareLessThan', 'vlt', {EMPTY: cl_empty_id, PROBE: cl_probe_id})

    # ---- MakeHash specialisations that got instantiated: first template argument -> body text
    # (node ids are not stable between two clang runs; a class template has exactly one
    #  specialisation per argument list, so the argument identifies it)
    makehash = {}
    for t in nodes(trees):
        if t.get('kind') == 'ClassTemplateDecl' and t.get('name') == 'MakeHash':
            for s in kids(t):
                if s.get('kind') != 'ClassTemplateSpecializationDecl':
                    continue
                for m in kids(s):
                    if m.get('kind') == 'CXXMethodDecl' and m.get('name') == 'operator()' and body_of(m) is not None:
                        ps = params(m)
                        if len(ps) != 1:
                            raise Untranslatable('MakeHash::operator(): expected one parameter')
                        pid = ps[0].get('id')

                        def atom(n, pid=pid):
                            if n.get('kind') == 'DeclRefExpr':
                                if n.get('referencedDecl', {}).get('id') == pid:
                                    return 'v'
                                raise Untranslatable('MakeHash::operator(): reference to %s' % n.get('referencedDecl', {}).get('name'))
                            if n.get('kind') in ('CallExpr', 'CXXOperatorCallExpr', 'CXXMemberCallExpr'):
                                raise Untranslatable('MakeHash::operator(): the digest type is hashed by a call (not the size_t-convertible specialisation)')
                            return None
                        targs = template_args(s)
                        if not targs or targs[0] in makehash:
                            raise Untranslatable('MakeHash: ambiguous specialisations')
                        makehash[targs[0]] = Tr(atom, 'Z').expr(single_return(m, 'MakeHash::operator()'))

    # ---- std::hash<AnyId<...>>::operator()
    htrees = clang_ast(TU, 'std::hash')
    htexts = []
    mh_texts = []
    for t in htrees:
        for s in walk(t):
            if s.get('kind') != 'ClassTemplateSpecializationDecl' or s.get('name') != 'hash':
                continue
            if not any((a or '').startswith('eventpp::AnyId') for a in template_args(s)):
                continue
            for m in kids(s):
                if m.get('kind') == 'CXXMethodDecl' and m.get('name') == 'operator()' and body_of(m) is not None:
                    ps = params(m)
                    pids = [p.get('id') for p in ps]

                    def atom(n, pids=pids):
                        acc = accessor_call(n, pids)
                        if acc is not None:
                            if acc == ('getDigest', 0):
                                return 'd'
                            raise Untranslatable('std::hash<AnyId>: uses %s()' % acc[0])
                        if n.get('kind') == 'CXXOperatorCallExpr':
                            cs = kids(n)
                            ref = strip(cs[0]).get('referencedDecl', {})
                            if ref.get('name') != 'operator()' or len(cs) != 3:
                                raise Untranslatable('std::hash<AnyId>: unsupported call')
                            obj = strip(cs[1])
                            ty = obj.get('type', {})
                            mm = re.match(r'^eventpp::anyid_internal_::MakeHash<(.+)>$', ty.get('desugaredQualType') or ty.get('qualType') or '')
                            if obj.get('kind') != 'CXXTemporaryObjectExpr' or not mm:
                                raise Untranslatable('std::hash<AnyId>: callee object is not a MakeHash temporary')
                            if mm.group(1) not in makehash:
                                raise Untranslatable('std::hash<AnyId>: MakeHash<%s>::operator() has no translated body' % mm.group(1))
                            mh_texts.append(makehash[mm.group(1)])
                            return '(make_hash %s)' % Tr(atom, 'Z').expr(cs[2])
                        if n.get('kind') in ('DeclRefExpr', 'MemberExpr', 'CXXMemberCallExpr', 'CallExpr'):
                            raise Untranslatable('std::hash<AnyId>: unsupported operand %s' % n.get('kind'))
                        return None
                    htexts.append(Tr(atom, 'Z').expr(single_return(m, 'std::hash<AnyId>::operator()')))
    if len(htexts) < 2:
        raise Untranslatable('std::hash<AnyId>: expected two instantiations, found %d' % len(htexts))
    if len(set(htexts)) != 1 or len(set(mh_texts)) != 1:
        raise Untranslatable('std::hash<AnyId>: instantiations differ: %s / %s' % (htexts, mh_texts))

    out['GenAnyId.v'] = '''(* GENERATED by tools/leafgen.py (tools/leaves/anyid.py) from include/eventpp/utilities/anyid.h — do not edit *)
From Coq Require Import ZArith Bool.
Local Open Scope Z_scope.

(* bool operator == (const AnyId & a, const AnyId & b)
   da = a.getDigest(), db = b.getDigest(), veq = compareEqual(a.getValue(), b.getValue()) *)
Definition eqb (da db : Z) (veq : bool) : bool := %s.

(* bool operator < (const AnyId & a, const AnyId & b)
   vlt = compareLessThan(a.getValue(), b.getValue()) *)
Definition ltb (da db : Z) (vlt : bool) : bool := %s.

(* MakeHash<DigestType>::operator()(value) — the specialisation the call in std::hash<AnyId> resolves to *)
Definition make_hash (v : Z) : Z := %s.

(* std::hash<AnyId>::operator()(value), d = value.getDigest() *)
Definition hash (d : Z) : Z := %s.

(* compareEqual / compareLessThan selected for a Storage that has == / < ; op = (a <operator> b) *)
Definition compare_equal (op : bool) : bool := %s.
Definition compare_less (op : bool) : bool := %s.

(* compareEqual / compareLessThan selected for EmptyAnyStorage (no ==, no <) *)
Definition fallback_eq : bool := %s.
Definition fallback_lt : bool := %s.
''' % (eq_txt, lt_txt, mh_texts[0], htexts[0], ce_txt, cl_txt, fb_eq, fb_lt)


LEAVES = [('anyid', leaf_anyid)]
