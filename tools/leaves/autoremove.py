"""leaves of include/eventpp/utilities/counterremover.h and conditionalremover.h -> coq/gen/GenAutoRemove.v

For BOTH specialisations of each helper (the one for CallbackList-like targets, `islist = true`,
and the one for EventDispatcher/EventQueue-like targets, `islist = false`; the heterogeneous
classes select one of these two through their tags) the INSTANTIATED `operator()` of the
wrapper callable is read from the clang AST:

  counter_step            the decrement-and-test `--data->triggerCount <= 0` as a function of the
                          decrement on machine ints and of the old value: (new value, remove?)
                          (pre- vs post-decrement, the comparison operator and the literal are
                          whatever the header says)
  counter_bits            width of the counter's type (`int` -> 32)
  counter_removes_before_call / cond_removes_before_call
                          does `remove own handle when due` precede the call of the wrapped listener?
  cond_passes_args        does the condition receive the trigger's arguments (per overload:
                          condition accepts them / does not)?
  counter_state_shared / cond_state_shared
                          structural: the wrapper callable holds exactly one member, a
                          shared_ptr<Data>; every piece of state operator() touches is reached
                          through it; Data holds no pointer/reference to the helper object

Supported statement shape of operator() (anything else is not guessed: Untranslatable):
  exactly two top-level statements, in either order:
    if(<test>) { data-><target>.remove|removeListener([data->event,] data->handle); }     (no else)
    data->listener(std::forward<Args>(args)...);
  <test> for CounterRemover: a comparison between `--data->triggerCount` / `data->triggerCount--`
  and an integer literal, optionally behind a guard `data->triggerCount <cmp> literal || ...` (when
  the guard holds the decrement is not executed);  for ConditionalRemover: exactly one call `data->shouldRemove(args...)`
  or `data->shouldRemove()` (so the condition is evaluated exactly once per activation)."""
from leafcore import *  # noqa: F401,F403

TU = '''#include "eventpp/callbacklist.h"
#include "eventpp/eventdispatcher.h"
#include "eventpp/utilities/counterremover.h"
#include "eventpp/utilities/conditionalremover.h"
struct VCb { void operator()(int) const {} };
struct VCondA { bool operator()(int) const { return true; } };
struct VCondN { bool operator()() const { return true; } };
void vuse() {
	eventpp::CallbackList<void(int)> cl;
	eventpp::EventDispatcher<int, void(int)> d;
	eventpp::counterRemover(cl).append(VCb(), 1);
	eventpp::counterRemover(d).appendListener(1, VCb(), 1);
	eventpp::conditionalRemover(cl).append(VCb(), VCondA());
	eventpp::conditionalRemover(cl).append(VCb(), VCondN());
	eventpp::conditionalRemover(d).appendListener(1, VCb(), VCondA());
	eventpp::conditionalRemover(d).appendListener(1, VCb(), VCondN());
	cl(1); d.dispatch(1, 1);
}
'''

TARGETS = {'callbackList': True, 'dispatcher': False}     # Data member naming the target -> islist
REMOVE = {'callbackList': 'remove', 'dispatcher': 'removeListener'}


def _is_this(n):
    return strip(n).get('kind') == 'CXXThisExpr'


def _data_member(n):
    """n is `data->F` with `data` the wrapper's own shared_ptr member: returns F, else None"""
    n = strip(n)
    if n.get('kind') != 'MemberExpr':
        return None
    ks = kids(n)
    if len(ks) != 1:
        return None
    arrow = strip(ks[0])
    if arrow.get('kind') != 'CXXOperatorCallExpr':
        return None
    cs = kids(arrow)
    if len(cs) != 2:
        return None
    fn = strip(cs[0])
    if fn.get('referencedDecl', {}).get('name') != 'operator->':
        return None
    obj = strip(cs[1])
    if obj.get('kind') == 'MemberExpr' and obj.get('name') == 'data' and _is_this(kids(obj)[0]):
        return n.get('name')
    return None


def _through_copy(n):
    """a by-value parameter initialised by copy construction from an lvalue: look at the lvalue"""
    n = strip(n)
    if n.get('kind') == 'CXXConstructExpr' and len(kids(n)) == 1:
        return strip(kids(n)[0])
    return n


def _is_forwarded_arg(n, params):
    n = strip(n)
    if n.get('kind') == 'CallExpr':
        cs = kids(n)
        fn = strip(cs[0])
        if fn.get('referencedDecl', {}).get('name') in ('forward', 'move') and len(cs) == 2:
            n = strip(cs[1])
        else:
            return False
    return n.get('kind') == 'DeclRefExpr' and n.get('referencedDecl', {}).get('name') in params


def _functor_call(n):
    """`data->F(args)` where F is a functor member: returns (F, [args]) or None"""
    n = strip(n)
    if n.get('kind') != 'CXXOperatorCallExpr':
        return None
    cs = kids(n)
    fn = strip(cs[0])
    if fn.get('referencedDecl', {}).get('name') != 'operator()':
        return None
    f = _data_member(cs[1])
    if f is None:
        return None
    return f, cs[2:]


def _remove_call(stmt, target):
    """the then-branch: exactly one `data-><target>.remove(data->handle)` / `.removeListener(data->event, data->handle)`"""
    s = strip(stmt)
    body = kids(s) if s.get('kind') == 'CompoundStmt' else [s]
    if len(body) != 1:
        raise Untranslatable('then-branch of the wrapper: expected exactly one statement')
    c = strip(body[0])
    if c.get('kind') != 'CXXMemberCallExpr':
        raise Untranslatable('then-branch of the wrapper: expected a member call, found %s' % c.get('kind'))
    cs = kids(c)
    callee = strip(cs[0])
    if callee.get('kind') != 'MemberExpr' or callee.get('name') != REMOVE[target]:
        raise Untranslatable('then-branch of the wrapper: expected %s' % REMOVE[target])
    if _data_member(kids(callee)[0]) != target:
        raise Untranslatable('then-branch of the wrapper: %s is not called on data->%s' % (REMOVE[target], target))
    args = [_data_member(_through_copy(a)) for a in cs[1:]]
    want = ['handle'] if target == 'callbackList' else ['event', 'handle']
    if args != want:
        raise Untranslatable('then-branch of the wrapper: arguments %r, expected data->%s' % (args, ', data->'.join(want)))


def _instantiated_call_operators(rec):
    """CXXMethodDecl operator() with a body whose parameter types are concrete"""
    out = []
    for n in walk(rec):
        if n.get('kind') == 'CXXMethodDecl' and n.get('name') == 'operator()' and 'Args' not in n.get('type', {}).get('qualType', ''):
            body = [c for c in kids(n) if c.get('kind') == 'CompoundStmt']
            if body:
                out.append((n, body[0]))
    return out


def _fields(rec):
    return [(c.get('name'), c.get('type', {})) for c in kids(rec) if c.get('kind') == 'FieldDecl']


def _structure(wrapper, helper_name):
    """returns (target member, shared?, Data field types)"""
    wf = _fields(wrapper)
    data = [c for c in kids(wrapper) if c.get('kind') == 'CXXRecordDecl' and c.get('name') == 'Data' and c.get('completeDefinition')]
    if len(data) != 1:
        raise Untranslatable('%s wrapper: struct Data not found' % helper_name)
    df = _fields(data[0])
    targets = [nm for nm, _ in df if nm in TARGETS]
    if len(targets) != 1:
        raise Untranslatable('%s wrapper: Data must name exactly one target (callbackList / dispatcher)' % helper_name)
    shared = (len(wf) == 1 and wf[0][0] == 'data' and wf[0][1].get('qualType', '').startswith('std::shared_ptr<'))
    for nm, ty in df:
        t = ty.get('qualType', '') + ' ' + ty.get('desugaredQualType', '')
        if 'Remover' in t:
            shared = False         # Data refers to the helper object
    return targets[0], shared, dict((nm, ty.get('qualType', '')) for nm, ty in df)


def _body_shape(method, body, target, what):
    """returns (if statement, index of if, index of listener call)"""
    params = [p.get('name') for p in kids(method) if p.get('kind') == 'ParmVarDecl']
    stmts = kids(body)
    # `const bool name = TEST; if(name) …` is `if(TEST) …`: a test named in a local right in front of the if that uses it
    named = {}
    if len(stmts) == 3:
        for i in range(len(stmts) - 1):
            d, nxt = stmts[i], strip(stmts[i + 1])
            vs = [v for v in kids(d) if v.get('kind') == 'VarDecl'] if d.get('kind') == 'DeclStmt' else []
            if len(vs) == 1 and kids(vs[0]) and nxt.get('kind') == 'IfStmt' and kids(nxt):
                c = strip(kids(nxt)[0])
                if c.get('kind') == 'DeclRefExpr' and (c.get('referencedDecl') or {}).get('id') == vs[0].get('id'):
                    named[(nxt.get('range') or {}).get('begin', {}).get('offset')] = kids(vs[0])[-1]
                    stmts = stmts[:i] + stmts[i + 1:]
                    break
    if len(stmts) != 2:
        raise Untranslatable('%s::operator(): expected two statements, found %d' % (what, len(stmts)))
    ifs = [i for i, s in enumerate(stmts) if strip(s).get('kind') == 'IfStmt']
    if len(ifs) != 1:
        raise Untranslatable('%s::operator(): expected exactly one if statement' % what)
    call = stmts[1 - ifs[0]]
    fc = _functor_call(call)
    if fc is None or fc[0] != 'listener':
        raise Untranslatable('%s::operator(): the other statement is not a call of data->listener' % what)
    if len(fc[1]) != len(params) or not all(_is_forwarded_arg(a, params) for a in fc[1]):
        raise Untranslatable('%s::operator(): data->listener is not called with the forwarded arguments' % what)
    st = strip(stmts[ifs[0]])
    ks = kids(st)
    if st.get('hasElse') or len(ks) != 2:
        raise Untranslatable('%s::operator(): if statement with else / init' % what)
    _remove_call(ks[1], target)
    cond = named.get((st.get('range') or {}).get('begin', {}).get('offset'), ks[0])
    return cond, ifs[0], 1 - ifs[0], params


def _counter(spec):
    wrappers = [n for n in walk(spec) if n.get('kind') == 'ClassTemplateSpecializationDecl' and n.get('name') == 'Wrapper']
    if len(wrappers) != 1:
        raise Untranslatable('CounterRemover: expected one instantiated Wrapper per specialisation')
    w = wrappers[0]
    target, shared, dfields = _structure(w, 'CounterRemover')
    if dfields.get('triggerCount') != 'int':
        raise Untranslatable('CounterRemover: Data::triggerCount is not an int (%r)' % dfields.get('triggerCount'))
    ops = _instantiated_call_operators(w)
    if len(ops) != 1:
        raise Untranslatable('CounterRemover::Wrapper: expected one instantiated operator()')
    method, body = ops[0]
    cond, i_if, i_call, params = _body_shape(method, body, target, 'CounterRemover::Wrapper')
    seen = []

    def make_atom(allow_read):
        def atom(n):
            if n.get('kind') == 'UnaryOperator' and n.get('opcode') == '--':
                if _data_member(kids(n)[0]) != 'triggerCount':
                    raise Untranslatable('CounterRemover: the decremented object is not data->triggerCount')
                if allow_read:
                    raise Untranslatable('CounterRemover: decrement inside the guard of the test')
                seen.append(1)
                return 'n_before' if n.get('isPostfix') else 'n_after'
            if n.get('kind') == 'MemberExpr' and _data_member(n) == 'triggerCount' and allow_read:
                return 'n_before'
            if n.get('kind') in ('UnaryOperator', 'MemberExpr', 'DeclRefExpr', 'CXXOperatorCallExpr', 'CallExpr', 'CXXMemberCallExpr', 'CompoundAssignOperator'):
                raise Untranslatable('CounterRemover: unsupported operand in the test (%s)' % n.get('kind'))
            return None
        return atom

    NEG = {'<': '>=', '>': '<=', '<=': '>', '>=': '<', '==': '!=', '!=': '=='}

    def comparison(e, allow_read, neg=False):
        e = strip(e)
        if e.get('kind') != 'BinaryOperator' or e.get('opcode') not in CMPOPS:
            raise Untranslatable('CounterRemover: the test is not a comparison')
        if neg:
            # the negation of a comparison of integers is the opposite comparison (exact on Z)
            if e.get('opcode') not in NEG:
                raise Untranslatable('CounterRemover: negated %s' % e.get('opcode'))
            e = dict(e, opcode=NEG[e.get('opcode')])
        return Tr(make_atom(allow_read), 'Z').expr(e)
    c = strip(cond)
    neg = False
    while c.get('kind') == 'UnaryOperator' and c.get('opcode') == '!':
        neg = not neg
        c = strip(kids(c)[0])
    if c.get('kind') == 'BinaryOperator' and c.get('opcode') == ('&&' if neg else '||'):
        # `!(a && b)` is `!a || !b` with the same short circuit: b is evaluated exactly when a holds
        # `guard || test`: the guard reads data->triggerCount without changing it; when it holds the
        # decrement is not executed (short circuit)
        lhs, rhs = kids(c)
        guard = comparison(lhs, True, neg)
        term = comparison(rhs, False, neg)
        step = '(let n_before := n in if %s then (n_before, true) else let n_after := dec n in (n_after, %s))' % (guard, term)
    else:
        term = comparison(c, False, neg)
        step = '(let n_before := n in let n_after := dec n in (n_after, %s))' % term
    if len(seen) != 1:
        raise Untranslatable('CounterRemover: expected exactly one decrement of data->triggerCount in the test')
    others = [x for x in walk(body) if x.get('kind') in ('UnaryOperator', 'CompoundAssignOperator', 'BinaryOperator')
              and x.get('opcode') in ('--', '++', '-=', '+=', '=')]
    if len(others) != 1:
        raise Untranslatable('CounterRemover: operator() modifies state outside the single decrement')
    return TARGETS[target], dict(step=step, rbc=(i_if < i_call), shared=shared)


def _conditional(spec):
    wrappers = [n for n in walk(spec) if n.get('kind') == 'ClassTemplateSpecializationDecl' and n.get('name') == 'ItemByCondition']
    res = {}
    islist = None
    for w in wrappers:
        target, shared, dfields = _structure(w, 'ConditionalRemover')
        cty = dfields.get('shouldRemove')
        if cty not in ('VCondA', 'VCondN'):
            raise Untranslatable('ConditionalRemover: Data::shouldRemove has unexpected type %r' % cty)
        ops = _instantiated_call_operators(w)
        if len(ops) != 1:
            raise Untranslatable('ConditionalRemover::ItemByCondition: expected one instantiated operator()')
        method, body = ops[0]
        cond, i_if, i_call, params = _body_shape(method, body, target, 'ConditionalRemover::ItemByCondition')
        fc = _functor_call(cond)
        if fc is None or fc[0] != 'shouldRemove':
            raise Untranslatable('ConditionalRemover: the test is not a single call of data->shouldRemove')
        sites = [x for x in walk(body) if x.get('kind') == 'MemberExpr' and _data_member(x) == 'shouldRemove']
        if len(sites) != 1:
            raise Untranslatable('ConditionalRemover: data->shouldRemove is used %d times in operator() (the condition must be evaluated exactly once)' % len(sites))
        if fc[1]:
            if len(fc[1]) != len(params) or not all(_is_forwarded_arg(a, params) for a in fc[1]):
                raise Untranslatable('ConditionalRemover: the condition is called with something other than the arguments')
        mods = [x for x in walk(body) if x.get('kind') in ('UnaryOperator', 'CompoundAssignOperator', 'BinaryOperator')
                and x.get('opcode') in ('--', '++', '-=', '+=', '=')]
        if mods:
            raise Untranslatable('ConditionalRemover: operator() modifies state')
        il = TARGETS[target]
        if islist is not None and il != islist:
            raise Untranslatable('ConditionalRemover: wrappers of one specialisation name different targets')
        islist = il
        res[cty] = dict(args=bool(fc[1]), rbc=(i_if < i_call), shared=shared)
    if sorted(res) != ['VCondA', 'VCondN']:
        raise Untranslatable('ConditionalRemover: expected the two instantiations (condition with / without parameter), found %r' % sorted(res))
    if res['VCondA']['rbc'] != res['VCondN']['rbc']:
        # the two overloads of one specialisation disagree on the order: the model has one flag per specialisation
        raise Untranslatable('ConditionalRemover: the two operator() overloads order removal and call differently')
    return islist, dict(rbc=res['VCondA']['rbc'], shared=res['VCondA']['shared'] and res['VCondN']['shared'],
                        args_a=res['VCondA']['args'], args_n=res['VCondN']['args'])


def _b(x):
    return 'true' if x else 'false'


def leaf_autoremove(out):
    ctr, cnd = {}, {}
    for t in clang_ast(TU, 'CounterRemover'):
        if t.get('kind') == 'ClassTemplateDecl':
            for n in kids(t):
                if n.get('kind') == 'ClassTemplateSpecializationDecl' and n.get('name') == 'CounterRemover':
                    il, d = _counter(n)
                    ctr[il] = d
    for t in clang_ast(TU, 'ConditionalRemover'):
        if t.get('kind') == 'ClassTemplateDecl':
            for n in kids(t):
                if n.get('kind') == 'ClassTemplateSpecializationDecl' and n.get('name') == 'ConditionalRemover':
                    il, d = _conditional(n)
                    cnd[il] = d
    for nm, d in (('CounterRemover', ctr), ('ConditionalRemover', cnd)):
        if sorted(d) != [False, True]:
            raise Untranslatable('%s: expected one specialisation for CallbackList-like and one for EventDispatcher-like targets' % nm)
    out['GenAutoRemove.v'] = '''(* GENERATED by tools/leafgen.py from include/eventpp/utilities/counterremover.h and conditionalremover.h — do not edit *)
(* islist = true: the specialisation for CallbackList-like targets; false: for EventDispatcher/EventQueue-like targets *)
From Coq Require Import ZArith Bool.
Local Open Scope Z_scope.

(* Data::triggerCount is an `int` *)
Definition counter_bits : Z := 32.

(* CounterRemover::Wrapper::operator(): the test of the if statement.  dec = decrement of a machine int,
   n = data->triggerCount before;  result = (data->triggerCount afterwards, test) *)
Definition counter_step (islist : bool) (dec : Z -> Z) (n : Z) : Z * bool :=
  if islist then %s
  else %s.

(* does `if(test) remove own handle` precede `data->listener(args...)`? *)
Definition counter_removes_before_call (islist : bool) : bool := if islist then %s else %s.
Definition cond_removes_before_call (islist : bool) : bool := if islist then %s else %s.

(* ConditionalRemover::ItemByCondition::operator(): the test is exactly one call of data->shouldRemove;
   is it given the trigger's arguments?  accepts = the overload selected when the condition is callable with them *)
Definition cond_passes_args (islist accepts : bool) : bool :=
  if islist then (if accepts then %s else %s) else (if accepts then %s else %s).

(* the wrapper callable holds only a shared_ptr<Data>, operator() reaches all its state through it and
   Data does not refer to the helper object *)
Definition counter_state_shared (islist : bool) : bool := if islist then %s else %s.
Definition cond_state_shared (islist : bool) : bool := if islist then %s else %s.
''' % (ctr[True]['step'], ctr[False]['step'],
       _b(ctr[True]['rbc']), _b(ctr[False]['rbc']), _b(cnd[True]['rbc']), _b(cnd[False]['rbc']),
       _b(cnd[True]['args_a']), _b(cnd[True]['args_n']), _b(cnd[False]['args_a']), _b(cnd[False]['args_n']),
       _b(ctr[True]['shared']), _b(ctr[False]['shared']), _b(cnd[True]['shared']), _b(cnd[False]['shared']))


LEAVES = [('autoremove', leaf_autoremove)]
