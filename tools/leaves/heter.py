"""leaves of hetereventqueue.h and internal/hetercallbacklist_i.h -> coq/gen/GenHeter.v

  * the index arithmetic of FindPrototypeByCallableFromIndex / FindPrototypeByArgsFromIndex
    (`canInvoke ? N : next::index`, the `N + 1` of the recursion, the enabling guard `N < M`, the
    terminal -1, the starting index of FindPrototypeByCallable / FindPrototypeByArgs) and the
    structural fact that Prototype / ArgsTuple follow the same `canInvoke` selection;
  * HeterEventQueueBase::doProcessIf: the tag comparison, its position relative to the first typed
    access of the slot (`get<QueuedItem<ArgsTuple>>()`), and the template arguments of the search
    for the NEXT callable prototype (remaining prototypes with their true indices, or the whole
    list again with shifted labels);  both facts are cross-checked against what the compiler
    instantiates for a sample prototype list;
  * HeterEventQueueBase::emptyQueue.

Anything outside the recognised shapes raises Untranslatable (nothing is guessed)."""
import re

from leafcore import *  # noqa: F401,F403
import leafcore

HCL_I = 'internal/hetercallbacklist_i.h'


# ------------------------------------------------------------------------------------------
# a tiny infix reader for the integer expressions that occur in template argument lists

def _tokens(s):
    out = []
    i = 0
    while i < len(s):
        c = s[i]
        if c.isspace():
            i += 1
        elif c.isdigit():
            j = i
            while j < len(s) and s[j].isdigit():
                j += 1
            out.append(('int', s[i:j]))
            i = j
        elif c.isalpha() or c == '_':
            j = i
            while j < len(s) and (s[j].isalnum() or s[j] in '_:'):
                j += 1
            out.append(('id', s[i:j]))
            i = j
        elif s[i:i + 2] in ('<=', '>=', '==', '!='):
            out.append(('op', s[i:i + 2]))
            i += 2
        elif c in '<>+-()':
            out.append(('op', c))
            i += 1
        else:
            raise Untranslatable('unsupported character %r in expression %r' % (c, s))
    return out


class _Infix:
    """cmp := sum [relop sum] ; sum := term {(+|-) term} ; term := id | int | -term | (cmp)"""

    def __init__(self, text, names):
        self.t = _tokens(text)
        self.i = 0
        self.names = names
        self.text = text

    def peek(self):
        return self.t[self.i] if self.i < len(self.t) else (None, None)

    def take(self):
        tok = self.peek()
        self.i += 1
        return tok

    def term(self):
        k, v = self.take()
        if k == 'int':
            return '%s' % v
        if k == 'id':
            if v not in self.names:
                raise Untranslatable('unknown name %s in %r' % (v, self.text))
            return self.names[v]
        if (k, v) == ('op', '-'):
            return '(- %s)' % self.term()
        if (k, v) == ('op', '('):
            e = self.cmp()
            if self.take() != ('op', ')'):
                raise Untranslatable('unbalanced parenthesis in %r' % self.text)
            return e
        raise Untranslatable('cannot read %r' % self.text)

    def sum(self):
        e = self.term()
        while self.peek() in (('op', '+'), ('op', '-')):
            _, op = self.take()
            e = '(%s %s %s)' % (e, op, self.term())
        return e

    def cmp(self):
        l = self.sum()
        k, v = self.peek()
        rel = {'<': 'Z.ltb %s %s', '<=': 'Z.leb %s %s', '>': 'Z.ltb %s %s', '>=': 'Z.leb %s %s', '==': 'Z.eqb %s %s', '!=': 'negb (Z.eqb %s %s)'}
        if k == 'op' and v in rel:
            self.take()
            r = self.sum()
            a, b = (r, l) if v in ('>', '>=') else (l, r)
            return '(' + rel[v] % (a, b) + ')'
        return l

    def all(self):
        e = self.cmp()
        if self.i != len(self.t):
            raise Untranslatable('trailing text in %r' % self.text)
        return e


def infix(text, names):
    return _Infix(text, names).all()


NEG = {'<': '>=', '>=': '<', '>': '<=', '<=': '>'}


def relation(text):
    """'(A op B)' -> (A, op, B) for one relational operator"""
    m = re.match(r'^\(?\s*([\w:]+)\s*(<=|>=|<|>)\s*([\w:]+)\s*\)?$', text.strip())
    if not m:
        raise Untranslatable('not a simple comparison: %r' % text)
    return m.group(1), m.group(2), m.group(3)


def norm(s):
    return re.sub(r'\s+', ' ', s).strip()


def squeeze(s):
    return re.sub(r'\s+', '', s)


def source_of(node, header):
    """the source text of a node that lies in include/eventpp/<header>"""
    r = node.get('range', {})
    b, e = r.get('begin', {}), r.get('end', {})
    if 'offset' not in b or 'offset' not in e:
        raise Untranslatable('node without source range')
    text = open(leafcore.INC + '/eventpp/' + header).read()
    return text[b['offset']: e['offset'] + e.get('tokLen', 0)]


def qual(n):
    return n.get('type', {}).get('qualType', '')


# ------------------------------------------------------------------------------------------
# FindPrototypeBy{Callable,Args}FromIndex

def specialisations(trees, name):
    return [t for t in trees if t.get('kind') == 'ClassTemplatePartialSpecializationDecl' and t.get('name') == name]


def enum_const(spec, name):
    for n in walk(spec):
        if n.get('kind') == 'EnumConstantDecl' and n.get('name') == name:
            ks = kids(n)
            if len(ks) == 1:
                return ks[0]
    raise Untranslatable('enumerator %s not found' % name)


def alias(spec, name):
    for n in kids(spec):
        if n.get('kind') == 'TypeAliasDecl' and n.get('name') == name:
            return qual(n)
    return None


def find_recursion(trees, name, extra_args):
    """returns dict(index=<Gallina>, next=<Gallina>, end=<Gallina>, guard=<Gallina or None>)
    extra_args: the template arguments that must be passed through unchanged after HeterTuple<Others...>"""
    specs = specialisations(trees, name)
    if len(specs) != 2:
        raise Untranslatable('%s: expected two partial specialisations, found %d' % (name, len(specs)))
    step = [s for s in specs if any(n.get('kind') == 'EnumConstantDecl' and n.get('name') == 'canInvoke' for n in walk(s))]
    last = [s for s in specs if s not in step]
    if len(step) != 1 or len(last) != 1:
        raise Untranslatable('%s: cannot tell the recursive from the terminal specialisation' % name)
    step, last = step[0], last[0]
    # the recursive specialisation must be the one for HeterTuple<RT (Args...), Others...>
    targs = [qual(c) for c in kids(step) if c.get('kind') == 'TemplateArgument']
    if not any(re.match(r'^HeterTuple<type-parameter-0-\d+ \(type-parameter-0-\d+\.\.\.\), type-parameter-0-\d+\.\.\.>$', t) for t in targs):
        raise Untranslatable('%s: the recursive specialisation does not match HeterTuple<RT (Args...), Others...>' % name)
    # canInvoke = CanInvoke<...>::value
    ci = source_of(enum_const(step, 'canInvoke'), HCL_I)
    if name == 'FindPrototypeByCallableFromIndex':
        want = 'CanInvoke<Callable,typenameArgTransformer<Args>::type...>::value'
    else:
        want = 'CanInvoke<RT(Args...),InArgs...>::value'
    if squeeze(ci) != want:
        raise Untranslatable('%s: canInvoke is %r' % (name, norm(ci)))
    # index = canInvoke ? N : <name><N + 1, HeterTuple<Others...>, extra...>::index
    cond = enum_const(step, 'index')
    if cond.get('kind') != 'ConditionalOperator':
        raise Untranslatable('%s::index is not a conditional expression' % name)
    c, a, b = kids(cond)
    nested = re.compile(r'^%s<(.+?),HeterTuple<Others\.\.\.>,%s>::(\w+)$' % (name, re.escape(squeeze(extra_args))))

    def branch(n):
        n = strip(n)
        if n.get('kind') == 'DeclRefExpr' and member_name(n) == 'N':
            return 'N'
        if n.get('kind') == 'DependentScopeDeclRefExpr':
            m = nested.match(squeeze(source_of(n, HCL_I)))
            if m and m.group(2) == 'index':
                branch.next = m.group(1)
                return 'next_index'
        raise Untranslatable('%s::index: unexpected operand %r' % (name, n.get('kind')))
    branch.next = None
    cn = strip(c)
    if cn.get('kind') == 'DeclRefExpr' and member_name(cn) == 'canInvoke':
        cg = 'canInvoke'
    elif cn.get('kind') == 'UnaryOperator' and cn.get('opcode') == '!' and member_name(strip(kids(cn)[0])) == 'canInvoke':
        cg = '(negb canInvoke)'
    else:
        raise Untranslatable('%s::index: unexpected condition' % name)
    ga, gb = branch(a), branch(b)
    if branch.next is None:
        raise Untranslatable('%s::index does not recurse' % name)
    res = {'index': '(if %s then %s else %s)' % (cg, ga, gb)}
    res['next'] = infix(re.sub(r'([+\-])', r' \1 ', branch.next), {'N': 'N'})
    # the type members follow the same selection
    for member in ('Prototype', 'ArgsTuple'):
        q = alias(step, member)
        m = re.match(r'^typenamestd::conditional<canInvoke,(.+),typename%s<(.+?),HeterTuple<Others\.\.\.>,%s>::(\w+)>::type$'
                     % (name, re.escape(squeeze(extra_args))), squeeze(q or ''))
        if not m or m.group(3) != member or m.group(2) != squeeze(branch.next) or cg != 'canInvoke' or (ga, gb) != ('N', 'next_index'):
            raise Untranslatable('%s::%s does not follow the selection of ::index' % (name, member))
        own = m.group(1)
        if member == 'Prototype' and own != 'RT(Args...)':
            raise Untranslatable('%s::Prototype selects %s' % (name, own))
        if member == 'ArgsTuple' and own != 'std::tuple<typenamestd::remove_cv<typenamestd::remove_reference<Args>::type>::type...>':
            raise Untranslatable('%s::ArgsTuple selects %s' % (name, own))
    # terminal specialisation
    e = strip(enum_const(last, 'index'))
    if e.get('kind') == 'UnaryOperator' and e.get('opcode') == '-' and strip(kids(e)[0]).get('kind') == 'IntegerLiteral':
        res['end'] = '(- %s)' % strip(kids(e)[0]).get('value')
    elif e.get('kind') == 'IntegerLiteral':
        res['end'] = e.get('value')
    else:
        raise Untranslatable('%s: terminal index is not a literal' % name)
    # guards
    res['guard'] = None
    g1 = [re.search(r'enable_if<\((.+?)\), void>', t) for t in targs]
    g1 = [m.group(1) for m in g1 if m]
    g2 = [re.search(r'enable_if<\((.+?)\), void>', qual(c)) for c in kids(last) if c.get('kind') == 'TemplateArgument']
    g2 = [m.group(1) for m in g2 if m]
    if name == 'FindPrototypeByCallableFromIndex':
        if len(g1) != 1 or len(g2) != 1:
            raise Untranslatable('%s: enable_if guards not found' % name)
        a1, op1, b1 = relation(g1[0])
        a2, op2, b2 = relation(g2[0])
        if (a1, b1) != ('N', 'M') or (a2, b2) != ('N', 'M') or NEG.get(op1) != op2:
            raise Untranslatable('%s: the two specialisations are not guarded by complementary conditions (%s / %s)' % (name, g1[0], g2[0]))
        res['guard'] = infix(g1[0], {'N': 'N', 'M': 'M'})
        res['remaining'] = remaining_member(step, last, name, extra_args, squeeze(branch.next))
    else:
        if g1 or g2:
            raise Untranslatable('%s: unexpected enable_if' % name)
        if not any(qual(c) in ('eventpp::HeterTuple<>', 'HeterTuple<>') for c in kids(last) if c.get('kind') == 'TemplateArgument'):
            raise Untranslatable('%s: the terminal specialisation is not the one for HeterTuple<>' % name)
    return res


def remaining_member(step, last, name, extra_args, nxt):
    """name of a member alias that is `the prototypes listed after the found one`, or None"""
    for n in kids(step):
        if n.get('kind') != 'TypeAliasDecl' or n.get('name') in ('Prototype', 'ArgsTuple'):
            continue
        m = re.match(r'^typenamestd::conditional<canInvoke,HeterTuple<Others\.\.\.>,typename%s<(.+?),HeterTuple<Others\.\.\.>,%s>::(\w+)>::type$'
                     % (name, re.escape(squeeze(extra_args))), squeeze(qual(n)))
        if m and m.group(2) == n.get('name') and m.group(1) == nxt and alias(last, n.get('name')) in ('HeterTuple<>', 'eventpp::HeterTuple<>'):
            return n.get('name')
    return None


def start_index(trees, name, base):
    """FindPrototypeByX : public FindPrototypeByXFromIndex<START, PrototypeList_, ...>"""
    for t in trees:
        for n in walk(t):
            if n.get('kind') == 'CXXRecordDecl' and n.get('name') == name and n.get('bases'):
                bs = [b.get('type', {}).get('qualType', '') for b in n['bases']]
                if len(bs) == 1:
                    m = re.match(r'^%s<(\d+), PrototypeList_, (.+)>$' % base, bs[0])
                    if m:
                        return m.group(1), m.group(2)
    raise Untranslatable('%s: base class %s<start, PrototypeList_, ...> not found' % (name, base))


# ------------------------------------------------------------------------------------------
# doProcessIf

SAMPLE_TU = '''#include "eventpp/hetereventqueue.h"
struct VerifA {}; struct VerifB {}; struct VerifC {};
struct VerifPred { bool operator()(VerifA) const; bool operator()(VerifC) const; };
void verif_use(eventpp::HeterEventQueue<int, eventpp::HeterTuple<void (VerifB), void (VerifA), void (int), void (VerifC), void ()> > & q) { q.processIf(VerifPred()); }
'''
SAMPLE_CALLABLE = [False, True, False, True, False]
SAMPLE_TYPES = ['std::tuple<VerifB>', 'std::tuple<VerifA>', 'std::tuple<int>', 'std::tuple<VerifC>', 'std::tuple<>']


def model_chain(over_remaining):
    """the rounds (label, type read) the Coq model predicts for the sample, from the two facts"""
    np_ = len(SAMPLE_CALLABLE)

    def find(n, protos):
        for p in protos:
            if not n < np_:
                return None
            if SAMPLE_CALLABLE[p]:
                return (n, p)
            n += 1
        return None
    out = []
    cur = find(0, list(range(np_)))
    while cur is not None:
        out.append((cur[0], SAMPLE_TYPES[cur[1]]))
        cur = find(cur[0] + 1, list(range(cur[1] + 1, np_)) if over_remaining else list(range(np_)))
    return out


def leaf_heter(out):
    tu = '#include "eventpp/hetereventqueue.h"\n'
    t_c = clang_ast(tu, 'FindPrototypeByCallable')
    fpc = find_recursion(t_c, 'FindPrototypeByCallableFromIndex', 'Callable, ArgTransformer, M')
    c_start, c_rest = start_index(t_c, 'FindPrototypeByCallable', 'FindPrototypeByCallableFromIndex')
    if c_rest != 'Callable, ArgTransformer':
        raise Untranslatable('FindPrototypeByCallable passes %r' % c_rest)
    # M defaults to the size of the list the search starts with
    prim = [t for t in t_c if t.get('kind') == 'ClassTemplateDecl' and t.get('name') == 'FindPrototypeByCallableFromIndex']
    if not prim:
        raise Untranslatable('primary template FindPrototypeByCallableFromIndex not found')
    mparm = [c for c in kids(prim[0]) if c.get('kind') == 'NonTypeTemplateParmDecl' and c.get('name') == 'M']
    if len(mparm) != 1 or squeeze(source_of(mparm[0], HCL_I)) != 'intM=HeterTupleSize<PrototypeList_>::value':
        raise Untranslatable('default of M is not HeterTupleSize<PrototypeList_>::value')
    t_a = clang_ast(tu, 'FindPrototypeByArgs')
    fpa = find_recursion(t_a, 'FindPrototypeByArgsFromIndex', 'InArgs...')
    a_start, a_rest = start_index(t_a, 'FindPrototypeByArgs', 'FindPrototypeByArgsFromIndex')
    if a_rest != 'InArgs...':
        raise Untranslatable('FindPrototypeByArgs passes %r' % a_rest)

    # ---- doProcessIf, template definition: enabling conditions and the next search
    t_q = clang_ast(SAMPLE_TU, 'HeterEventQueueBase')
    defs = []
    insts = []
    for t in t_q:
        for n in walk(t):
            if n.get('kind') == 'FunctionTemplateDecl' and n.get('name') == 'doProcessIf':
                ms = [c for c in kids(n) if c.get('kind') == 'CXXMethodDecl']
                if ms:
                    has_body = bool([c for c in kids(ms[0]) if c.get('kind') == 'CompoundStmt'])
                    if has_body and 'PrototypeInfo::index' in qual(ms[0]):
                        defs.append(ms[0])
                    for m in ms[1:]:
                        insts.append(m)
    # the class template itself holds the two definitions; its implicit instantiation holds the specialisations
    tdefs = {}
    for d in defs:
        m = re.search(r'enable_if<\((.+?)\), bool>', qual(d))
        if not m:
            raise Untranslatable('doProcessIf: no enable_if in %r' % qual(d))
        tdefs[m.group(1)] = d
    if len(tdefs) != 2:
        raise Untranslatable('doProcessIf: expected two overloads, found %d' % len(tdefs))
    main = [g for g in tdefs if any(x.get('kind') in ('ForStmt', 'WhileStmt', 'DoStmt', 'CXXForRangeStmt') for x in walk(tdefs[g]))]
    stop = [g for g in tdefs if g not in main]
    if len(main) != 1 or len(stop) != 1:
        raise Untranslatable('doProcessIf: cannot tell the working from the terminal overload')
    a1, op1, b1 = relation(main[0])
    a2, op2, b2 = relation(stop[0])
    if (a1, b1) != ('PrototypeInfo::index', '0') or (a2, b2) != (a1, b1) or NEG.get(op1) != op2:
        raise Untranslatable('doProcessIf: overloads are not guarded by complementary conditions (%s / %s)' % (main[0], stop[0]))
    enabled = infix(main[0], {'PrototypeInfo::index': 'index'})
    sb = [c for c in kids(tdefs[stop[0]]) if c.get('kind') == 'CompoundStmt'][0]
    rets = kids(sb)
    if len(rets) != 1 or rets[0].get('kind') != 'ReturnStmt' or strip(kids(rets[0])[0]).get('value') is not False:
        raise Untranslatable('doProcessIf (terminal overload) does not just return false')
    body = [c for c in kids(tdefs[main[0]]) if c.get('kind') == 'CompoundStmt'][0]
    nxt = [n for n in walk(body) if n.get('kind') == 'TypeAliasDecl' and 'FindPrototypeByCallableFromIndex<' in qual(n)]
    if len(nxt) != 1:
        raise Untranslatable('doProcessIf: expected one alias of FindPrototypeByCallableFromIndex<...>')
    nq = squeeze(qual(nxt[0]))
    m = re.match(r'^FindPrototypeByCallableFromIndex<(PrototypeInfo::index[+\-]\d+),(.+)>$', nq)
    if not m:
        raise Untranslatable('doProcessIf: next search is %r' % qual(nxt[0]))
    next_start = infix(re.sub(r'([+\-])', r' \1 ', m.group(1)), {'PrototypeInfo::index': 'index'})
    rest = m.group(2)
    if rest in ('PrototypeList,F', 'eventpp::internal_::HeterEventQueueBase::PrototypeList,F'):
        over_remaining = False      # the whole list again, M = its size, labels shifted
    elif fpc.get('remaining') and rest in (
            'typenamePrototypeInfo::%s,F,eventpp::internal_::FindPrototypeDefaultArgTransformer,HeterTupleSize<PrototypeList>::value' % fpc['remaining'],
            'typenamePrototypeInfo::%s,F,FindPrototypeDefaultArgTransformer,HeterTupleSize<PrototypeList>::value' % fpc['remaining']):
        over_remaining = True
    else:
        raise Untranslatable('doProcessIf: unrecognised next search %r' % qual(nxt[0]))
    # the recursive call must use that alias
    calls = [squeeze(source_of(n, 'hetereventqueue.h')) for n in walk(body) if n.get('kind') == 'UnresolvedMemberExpr']
    if not any(c.endswith('doProcessIf<%s>' % nxt[0].get('name')) or c == 'doProcessIf<%s>' % nxt[0].get('name') for c in calls):
        raise Untranslatable('doProcessIf: the recursive call does not use %s' % nxt[0].get('name'))

    # ---- doProcessIf, instantiated for the sample: order of tag test and typed access
    chain = []
    first = None
    for mth in insts:
        targs = [qual(c) for c in kids(mth) if c.get('kind') == 'TemplateArgument']
        if len(targs) != 2 or targs[1] != 'VerifPred':
            continue
        b = [c for c in kids(mth) if c.get('kind') == 'CompoundStmt']
        if not b:
            continue
        fors = [x for x in walk(b[0]) if x.get('kind') in ('ForStmt', 'WhileStmt', 'DoStmt')]
        if not fors:
            continue        # terminal overload
        if targs[0].startswith('eventpp::internal_::FindPrototypeByCallable<'):
            first = b[0]
        # label and type of this round as the compiler computed them
        typed = [qual(n) for n in walk(fors[0]) if n.get('kind') == 'CXXMemberCallExpr' and call_name(n) == 'get' and '::QueuedItem<' in qual(n)]
        idx = [n for n in walk(fors[0]) if n.get('kind') == 'DeclRefExpr' and member_name(n) == 'index']
        if not typed or not idx:
            raise Untranslatable('doProcessIf instance: typed access or index not found')
        ty = re.search(r'::QueuedItem<(.+)>$', typed[0]).group(1)
        chain.append((targs[0], ty))
    if first is None:
        raise Untranslatable('doProcessIf: sample instantiation not found')
    fors = [x for x in walk(first) if x.get('kind') in ('ForStmt', 'WhileStmt', 'DoStmt')]
    loop = kids(fors[0])[-1]
    if loop.get('kind') != 'CompoundStmt':
        raise Untranslatable('doProcessIf: loop body is not a block')
    stmts = kids(loop)
    tagpos = typedpos = None
    skip = None
    for i, s in enumerate(stmts):
        has_typed = any(n.get('kind') == 'CXXMemberCallExpr' and call_name(n) == 'get' and '::QueuedItem<' in qual(n) for n in walk(s))
        if has_typed and typedpos is None:
            typedpos = i
        if s.get('kind') == 'IfStmt' and tagpos is None:
            ks = kids(s)
            if any(member_name(n) == 'callableIndex' for n in walk(ks[0])):
                tagpos = i

                def atom(n):
                    if n.get('kind') == 'MemberExpr' and n.get('name') == 'callableIndex':
                        return 'callableIndex'
                    if n.get('kind') == 'DeclRefExpr' and member_name(n) == 'index':
                        return 'index'
                    return None
                skip = Tr(atom, 'Z').expr(ks[0])
                then = kids(ks[1]) if ks[1].get('kind') == 'CompoundStmt' else [ks[1]]
                if len(ks) != 2 or len(then) != 2 or then[1].get('kind') != 'ContinueStmt' or then[0].get('kind') not in ('UnaryOperator', 'CXXOperatorCallExpr'):
                    raise Untranslatable('doProcessIf: the tag test does not `++it; continue;`')
                # where does the tag come from?
                via = [qual(n) for n in walk(ks[0]) if n.get('kind') == 'CXXMemberCallExpr' and call_name(n) == 'get']
                tag_via_base = bool(via) and all(v.endswith('::QueuedItemBase') for v in via)
                if not via:
                    # a local reference to the base view declared earlier in the loop body
                    refs = [qual(n) for n in walk(ks[0]) if n.get('kind') == 'DeclRefExpr' and 'QueuedItem' in qual(n)]
                    tag_via_base = bool(refs) and all(re.search(r'::QueuedItemBase( &)?$', r.replace('const ', '')) for r in refs)
                tag_via_typed_var = any(n.get('kind') == 'DeclRefExpr' and '::QueuedItem<' in qual(n) for n in walk(ks[0]))
                if not tag_via_base and not tag_via_typed_var:
                    raise Untranslatable('doProcessIf: cannot tell how callableIndex is read')
    if tagpos is None or typedpos is None or skip is None:
        raise Untranslatable('doProcessIf: tag test or typed access not found in the loop')
    # how an accepted event is dispatched: through doDispatchQueuedEvent — the dispatcher stored with the item when it was
    # enqueued, as process() and processOne() do — or by a call that selects the prototype again
    disp = set()
    for n in walk(loop):
        if n.get('kind') in ('CXXMemberCallExpr', 'CallExpr') and kids(n):
            nm = call_name(n) if n.get('kind') == 'CXXMemberCallExpr' else member_name(kids(n)[0])
            if nm in ('doDispatchQueuedEvent', 'doDispatchQueuedItem', 'directDispatch', 'dispatch'):
                disp.add(nm)
    if not disp:
        raise Untranslatable('doProcessIf: no dispatch call found in the loop')
    via_stored = disp == {'doDispatchQueuedEvent'}
    checks_first = tagpos < typedpos and tag_via_base
    if not checks_first and not (typedpos < tagpos and tag_via_typed_var):
        raise Untranslatable('doProcessIf: unrecognised order of tag test and typed access')
    # nothing between the tag test and the typed access may touch the slot
    # ---- cross-check the next-search fact with the compiler's own computation on the sample
    want = model_chain(over_remaining)
    got = []
    for pi, ty in chain:
        if pi.startswith('eventpp::internal_::FindPrototypeByCallable<'):
            got.append((want[0][0] if want else -1, ty))
        else:
            mm = re.match(r'^eventpp::internal_::FindPrototypeByCallableFromIndex<(\d+), ', pi)
            if not mm:
                raise Untranslatable('doProcessIf: unexpected instantiation %r' % pi)
            # the label of the round is the index found by that search: read it from the next chain element
            got.append((None, ty, int(mm.group(1)), pi))
    # compare the sequence of slot types per round, and the start indices of the searches
    if [t for (_, t) in want] != [g[1] for g in got]:
        raise Untranslatable('doProcessIf: the compiler instantiates rounds over %r, the reading of the header predicts %r'
                             % ([g[1] for g in got], [t for (_, t) in want]))
    for k in range(1, len(got)):
        if got[k][2] != want[k - 1][0] + 1:
            raise Untranslatable('doProcessIf: search %d starts at %d, predicted %d' % (k, got[k][2], want[k - 1][0] + 1))

    # ---- emptyQueue
    def atom_q(n):
        k = n.get('kind')
        if k in ('CXXMemberCallExpr', 'CallExpr'):
            ks = kids(n)
            callee = strip(ks[0]) if ks else {}
            nm = member_name(callee)
            base = [member_name(x) for x in walk(callee) if x.get('kind') in ('MemberExpr', 'CXXDependentScopeMemberExpr', 'DeclRefExpr')]
            if nm == 'empty' and 'queueList' in base:
                return 'list_empty'
            if nm == 'load' and 'queueEmptyCounter' in base:
                return 'empty_counter'
        return None
    fn, ebody = find_function([t for t in t_q], 'emptyQueue')
    empty_queue = stmts_to_expr(Tr(atom_q, 'Z'), kids(ebody))

    b = lambda x: 'true' if x else 'false'   # noqa: E731
    out['GenHeter.v'] = '''(* GENERATED by tools/leafgen.py from hetereventqueue.h and internal/hetercallbacklist_i.h — do not edit *)
From Coq Require Import ZArith Bool.
Local Open Scope Z_scope.

(* FindPrototypeByCallableFromIndex<N, HeterTuple<RT (Args...), Others...>, Callable, ArgTransformer, M>:
   the recursive specialisation is enabled by fpc_guard (the terminal one by its negation);
   index = canInvoke ? ... ; the recursion continues at fpc_next N over Others...;
   Prototype and ArgsTuple follow the same canInvoke selection (checked structurally);
   FindPrototypeByCallable starts at fpc_start with M = the size of the list *)
Definition fpc_guard (N M : Z) : bool := %s.
Definition fpc_index (canInvoke : bool) (N next_index : Z) : Z := %s.
Definition fpc_next (N : Z) : Z := %s.
Definition fpc_end : Z := %s.
Definition fpc_start : Z := %s.

(* FindPrototypeByArgsFromIndex<N, HeterTuple<RT (Args...), Others...>, InArgs...>; terminal: HeterTuple<> *)
Definition fpa_index (canInvoke : bool) (N next_index : Z) : Z := %s.
Definition fpa_next (N : Z) : Z := %s.
Definition fpa_end : Z := %s.
Definition fpa_start : Z := %s.

(* HeterEventQueueBase::doProcessIf<PrototypeInfo>: enabled when ...; an item is skipped when ... *)
Definition processif_enabled (index : Z) : bool := %s.
Definition processif_skip (callableIndex index : Z) : bool := %s.
(* the search for the next callable prototype starts at this label ... *)
Definition processif_next_start (index : Z) : Z := %s.
(* ... and ranges over the prototypes listed AFTER the current one, with M = the size of the whole
   list (true), or over the whole list again with the labels shifted (false) *)
Definition processif_next_search_over_remaining : bool := %s.
(* the tag is read through QueuedItemBase and tested before the slot is accessed as QueuedItem<ArgsTuple> *)
Definition processif_checks_tag_before_typed_read : bool := %s.
(* an accepted event is dispatched through doDispatchQueuedEvent(item), i.e. by the dispatcher stored with the item when it
   was enqueued (as in process / processOne), not by a call that selects the prototype again from the stored arguments *)
Definition processif_dispatches_via_stored_dispatcher : bool := %s.

(* bool HeterEventQueueBase::emptyQueue() const *)
Definition heter_empty_queue (list_empty : bool) (empty_counter : Z) : bool := %s.
''' % (fpc['guard'], fpc['index'], fpc['next'], fpc['end'], c_start,
       fpa['index'], fpa['next'], fpa['end'], a_start,
       enabled, skip, next_start, b(over_remaining), b(checks_first), b(via_stored), empty_queue)


LEAVES = [('heter', leaf_heter)]
