"""lock scopes -> coq/gen/GenLocks.v

For each (class, guarded member, mutex): the member functions in which the member is accessed
OUTSIDE the scope of a named std::lock_guard / std::unique_lock on that mutex, with the number of
such accesses.  A guard is a local variable of a lock type whose initialiser names the mutex; it
covers the statements that follow it in the same compound statement (and everything nested in
them).  An unnamed temporary `std::lock_guard<Mutex>(m);` guards nothing.  Lambda bodies start
unguarded (they may run later).  The expected lists (reviewed by hand: constructors, assignment
and swap are not among the operations the thread-safety properties name; the `.empty()` pre-checks
of the queue are deliberate) are stated as theorems in Properties_C03.v / Properties_C06.v; a
dropped, misplaced or mis-typed lock changes a list and breaks them."""
from leafcore import *  # noqa: F401,F403

LOCK_TYPES = ('lock_guard', 'unique_lock', 'scoped_lock')
FUNCS = ('CXXMethodDecl', 'CXXConstructorDecl', 'CXXDestructorDecl', 'FunctionDecl')


def guard_of(stmt, mutexes):
    """names of the mutexes a DeclStmt locks"""
    out = set()
    if stmt.get('kind') != 'DeclStmt':
        return out
    for v in kids(stmt):
        if v.get('kind') == 'VarDecl' and any(t in v.get('type', {}).get('qualType', '') for t in LOCK_TYPES):
            for x in walk(v):
                nm = member_name(x) or x.get('name')
                if nm in mutexes:
                    out.add(nm)
    return out


def scan(body, member, mutex, mutexes, fnames):
    """(number of accesses to `member` outside a guard on `mutex`, does the body hold a guard on `mutex` anywhere,
        names of member functions called outside a guard)"""
    n = [0]
    has_guard = [False]
    calls = []

    def is_access(x):
        return x.get('kind') in ('MemberExpr', 'CXXDependentScopeMemberExpr') and member_name(x) == member

    def callee(x):
        if x.get('kind') in ('MemberExpr', 'CXXDependentScopeMemberExpr'):
            nm = member_name(x)
        elif x.get('kind') in ('UnresolvedMemberExpr', 'UnresolvedLookupExpr'):
            nm = x.get('name')
        else:
            nm = None
        return nm if nm in fnames and nm != member else None

    def rec(node, guarded):
        k = node.get('kind')
        if k == 'LambdaExpr':
            for c in kids(node):
                rec(c, False)
            return
        if k == 'CompoundStmt':
            g = guarded
            for c in kids(node):
                if mutex in guard_of(c, mutexes):
                    # the initialiser of the guard itself is evaluated before the lock is held
                    g = True
                    has_guard[0] = True
                    continue
                rec(c, g)
            return
        if not guarded:
            if is_access(node):
                n[0] += 1
            c = callee(node)
            if c:
                calls.append(c)
        for c in kids(node):
            rec(c, guarded)
    rec(body, False)
    return n[0], has_guard[0], calls


def class_functions(trees, cls):
    """(name, declaration, body, is_public) of every member function defined inside class template `cls` (and nested
    classes; members of nested classes and lambdas count as not public)"""
    out, seen = [], set()

    def rec(n, inside, public):
        here = n.get('name') == cls and (n.get('kind', '').startswith('ClassTemplate') or n.get('kind') == 'CXXRecordDecl')
        if here:
            inside = True
        if inside and n.get('kind') in FUNCS:
            body = [c for c in kids(n) if c.get('kind') == 'CompoundStmt']
            pos = str(n.get('range', {}).get('begin', {}))
            if body and pos not in seen:
                seen.add(pos)
                nm = n.get('name', '?')
                if n.get('kind') == 'CXXConstructorDecl':
                    nm = 'constructor'
                if n.get('kind') == 'CXXDestructorDecl':
                    nm = 'destructor'
                out.append((nm, n, body[0], public))
        if n.get('kind') in ('CXXRecordDecl', 'ClassTemplatePartialSpecializationDecl', 'ClassTemplateSpecializationDecl') and inside:
            # members in declaration order, with the access specifier in force
            acc = (n.get('tagUsed') == 'struct') and here
            for c in kids(n):
                if c.get('kind') == 'AccessSpecDecl':
                    acc = (c.get('access') == 'public') and here
                    continue
                rec(c, inside, acc)
            return
        for c in kids(n):
            rec(c, inside, public)
    for t in trees:
        rec(t, False, False)
    return out


def unguarded(trees, cls, member, mutex, mutexes):
    """The member functions in which `member` is reached outside a guard on `mutex`:
         "f#*"  f never takes the mutex (constructors, assignment, swap, the deliberate unlocked reads);
         "f#n"  f does take the mutex, and still reaches the member n times outside its guards.
    A non-public member function that takes no lock itself and that other member functions call (a link helper such as
    doAppend) is not listed itself: it runs under its caller's lock or not at all, so each call of it that is made outside a
    guard counts as one access of the caller."""
    fns = class_functions(trees, cls)
    if not fns:
        raise Untranslatable('%s: no member functions found' % cls)
    fnames = set(nm for nm, _, _, _ in fns)
    info = {}
    for nm, fn, body, public in fns:
        # constructors: the mem-initialiser list counts too
        extra = 0
        if fn.get('kind') == 'CXXConstructorDecl':
            for c in kids(fn):
                if c.get('kind') == 'CXXCtorInitializer':
                    extra += sum(1 for x in walk(c) if x.get('kind') in ('MemberExpr', 'CXXDependentScopeMemberExpr') and member_name(x) == member)
        k, g, calls = scan(body, member, mutex, mutexes, fnames)
        d = info.setdefault(nm, {'n': 0, 'guard': False, 'calls': [], 'public': False})
        d['n'] += k + extra
        d['guard'] = d['guard'] or g
        d['calls'] += calls
        d['public'] = d['public'] or public
    called = set(c for nm, d in info.items() for c in d['calls'] if c != nm)
    # also calls made under a guard make a function a helper: collect every callee name, guarded or not
    for nm, fn, body, public in fns:
        for x in walk(body):
            c = member_name(x) if x.get('kind') in ('MemberExpr', 'CXXDependentScopeMemberExpr') else (x.get('name') if x.get('kind') in ('UnresolvedMemberExpr', 'UnresolvedLookupExpr') else None)
            if c in fnames and c != nm and c != member:
                called.add(c)
    helpers = set(nm for nm, d in info.items() if not d['public'] and not d['guard'] and nm in called and nm not in ('constructor', 'destructor'))
    # effective count: own unguarded accesses + one for each unguarded call of a helper that reaches the member
    eff = {nm: d['n'] for nm, d in info.items()}
    for _ in range(len(info) + 2):
        changed = False
        for nm, d in info.items():
            v = d['n'] + sum(1 for c in d['calls'] if c in helpers and eff.get(c, 0) > 0)
            if v != eff[nm]:
                eff[nm] = v
                changed = True
        if not changed:
            break
    else:
        raise Untranslatable('%s::%s: helper call graph does not settle' % (cls, member))
    out = []
    for nm, d in info.items():
        if nm in helpers or eff[nm] == 0:
            continue
        out.append('%s#%s' % (nm, ('%d' % eff[nm]) if d['guard'] else '*'))
    return sorted(out)


REMOVERS = ('erase', 'clear', 'extract', 'merge')


def erasers(trees, cls, member):
    """member functions (constructors, destructor, assignment and swap of the whole object aside) that take entries out
    of the container `member`: a call of erase / clear / extract / merge on it, an assignment to it or a swap of it.
    The dispatcher machine (CLDispConc.v) relies on: a list that a lookup has found stays where it is."""
    out = set()
    for nm, fn, body, public in class_functions(trees, cls):
        if nm in ('constructor', 'destructor', 'operator=', 'swap'):
            continue
        for x in walk(body):
            k = x.get('kind')
            if k in ('MemberExpr', 'CXXDependentScopeMemberExpr') and member_name(x) in REMOVERS:
                base = kids(x)
                if base and member_name(strip(base[0])) == member:
                    out.add(nm)
            if k in ('BinaryOperator', 'CXXOperatorCallExpr') and (x.get('opcode') == '=' or k == 'CXXOperatorCallExpr'):
                ks = kids(x)
                if k == 'CXXOperatorCallExpr':
                    ks = ks[1:]
                if ks and member_name(strip(ks[0])) == member and (x.get('opcode') == '=' or any('operator=' in str(y.get('name', '')) + str((y.get('referencedDecl') or {}).get('name', '')) for y in walk(kids(x)[0]))):
                    out.add(nm)
            if k in ('CallExpr',) and any((y.get('name') == 'swap' or member_name(y) == 'swap') for y in walk(kids(x)[0])):
                if any(member_name(strip(a)) == member for a in kids(x)[1:]):
                    out.add(nm)
    return sorted(out)


LIST_OPS = ('append', 'prepend', 'insert', 'remove', 'ownsHandle', 'empty', 'forEach', 'forEachIf')


def list_ops_under(trees, cls, mutex, mutexes):
    """public member functions that call an operation of a callback list (append … forEachIf) INSIDE the scope of a guard on
    `mutex`: the calls of the dispatcher that keep listenerMutex across the list's own critical section"""
    out = set()
    for nm, fn, body, public in class_functions(trees, cls):
        if not public or nm in ('constructor', 'destructor', 'operator=', 'swap'):
            continue

        def rec(node, guarded):
            k = node.get('kind')
            if k == 'LambdaExpr':
                for c in kids(node):
                    rec(c, False)
                return
            if k == 'CompoundStmt':
                g = guarded
                for c in kids(node):
                    if mutex in guard_of(c, mutexes):
                        g = True
                        continue
                    rec(c, g)
                return
            if guarded and k in ('MemberExpr', 'CXXDependentScopeMemberExpr') and member_name(node) in LIST_OPS:
                out.add(nm)
            for c in kids(node):
                rec(c, guarded)
        rec(body, False)
    return sorted(out)


SITES = [
    # (definition name, header, class, member, mutex, all mutex names of the class)
    ('dispatcher_map_unguarded', 'eventpp/eventdispatcher.h', 'EventDispatcherBase', 'eventCallbackListMap', 'listenerMutex', ('listenerMutex',)),
    ('heter_dispatcher_map_unguarded', 'eventpp/hetereventdispatcher.h', 'HeterEventDispatcherBase', 'eventCallbackListMap', 'listenerMutex', ('listenerMutex',)),
    ('list_head_unguarded', 'eventpp/callbacklist.h', 'CallbackListBase', 'head', 'mutex', ('mutex',)),
    ('list_tail_unguarded', 'eventpp/callbacklist.h', 'CallbackListBase', 'tail', 'mutex', ('mutex',)),
    ('list_next_unguarded', 'eventpp/callbacklist.h', 'CallbackListBase', 'next', 'mutex', ('mutex',)),
    ('list_previous_unguarded', 'eventpp/callbacklist.h', 'CallbackListBase', 'previous', 'mutex', ('mutex',)),
    ('queue_list_unguarded', 'eventpp/eventqueue.h', 'EventQueueBase', 'queueList', 'queueListMutex', ('queueListMutex', 'freeListMutex')),
    ('queue_freelist_unguarded', 'eventpp/eventqueue.h', 'EventQueueBase', 'freeList', 'freeListMutex', ('queueListMutex', 'freeListMutex')),
    ('heter_queue_list_unguarded', 'eventpp/hetereventqueue.h', 'HeterEventQueueBase', 'queueList', 'queueListMutex', ('queueListMutex', 'freeListMutex')),
    ('heter_queue_freelist_unguarded', 'eventpp/hetereventqueue.h', 'HeterEventQueueBase', 'freeList', 'freeListMutex', ('queueListMutex', 'freeListMutex')),
]


def leaf_locks(out):
    cache = {}
    lines = ['(* GENERATED by tools/leafgen.py (tools/leaves/locks.py) — do not edit.',
             '   For each guarded member, the member functions that reach it outside the scope of a named lock_guard/unique_lock on',
             '   its mutex: "f#*" = f never takes the mutex; "f#n" = f takes it and still reaches the member n times outside its',
             '   guards.  Non-public helpers called by other member functions are folded into their callers. *)',
             'From Coq Require Import String List.', 'Import ListNotations.', 'Local Open Scope string_scope.', '']
    for name, header, cls, member, mutex, mutexes in SITES:
        key = (header, cls)
        if key not in cache:
            cache[key] = clang_ast('#include "%s"\n' % header, cls)
        lst = unguarded(cache[key], cls, member, mutex, mutexes)
        lines.append('(* %s::%s, guarded by %s *)' % (cls, member, mutex))
        lines.append('Definition %s : list string := [%s].' % (name, '; '.join('"%s"' % x for x in lst)))
    for name, header, cls in (('dispatcher_map_erasers', 'eventpp/eventdispatcher.h', 'EventDispatcherBase'),
                              ('heter_dispatcher_map_erasers', 'eventpp/hetereventdispatcher.h', 'HeterEventDispatcherBase')):
        lst = erasers(cache[(header, cls)], cls, 'eventCallbackListMap')
        lines.append('(* %s: member functions (whole-object construction, assignment, swap, destruction aside) that take entries out of eventCallbackListMap *)' % cls)
        lines.append('Definition %s : list string := [%s].' % (name, '; '.join('"%s"' % x for x in lst)))
    for name, header, cls in (('dispatcher_list_ops_under_listener_mutex', 'eventpp/eventdispatcher.h', 'EventDispatcherBase'),):
        lst = list_ops_under(cache[(header, cls)], cls, 'listenerMutex', ('listenerMutex',))
        lines.append('(* %s: public member functions that call a callback-list operation inside a guard on listenerMutex *)' % cls)
        lines.append('Definition %s : list string := [%s].' % (name, '; '.join('"%s"' % x for x in lst)))
    out['GenLocks.v'] = '\n'.join(lines) + '\n'


LEAVES = [('locks', leaf_locks)]
