"""lock scopes -> coq/gen/GenLocks.v

For each (class, guarded member, mutex): the member functions in which the member is accessed
OUTSIDE the scope of a named std::lock_guard / std::unique_lock on that mutex, with the number of
such accesses.  A guard is a local variable of a lock type whose initialiser names the mutex; it
covers the statements that follow it in the same compound statement (and everything nested in
them).  An unnamed temporary `std::lock_guard<Mutex>(m);` guards nothing.  Lambda bodies start
unguarded (they may run later).  The expected lists (reviewed by hand: constructors, assignment
and swap are not among the operations the thread-safety properties name; the `.empty()` pre-checks
of the queue are deliberate) are stated as theorems in Properties_C03.v / Properties_C06.v; a
dropped, misplaced or mis-typed lock changes a list and breaks them."""
from leafcore import *  # noqa: F401,F403

LOCK_TYPES = ('lock_guard', 'unique_lock', 'scoped_lock')
FUNCS = ('CXXMethodDecl', 'CXXConstructorDecl', 'CXXDestructorDecl', 'FunctionDecl')


def guard_of(stmt, mutexes):
    """names of the mutexes a DeclStmt locks"""
    out = set()
    if stmt.get('kind') != 'DeclStmt':
        return out
    for v in kids(stmt):
        if v.get('kind') == 'VarDecl' and any(t in v.get('type', {}).get('qualType', '') for t in LOCK_TYPES):
            for x in walk(v):
                nm = member_name(x) or x.get('name')
                if nm in mutexes:
                    out.add(nm)
    return out


def count_unguarded(body, member, mutex, mutexes):
    n = [0]

    def is_access(x):
        return x.get('kind') in ('MemberExpr', 'CXXDependentScopeMemberExpr') and member_name(x) == member

    def rec(node, guarded):
        k = node.get('kind')
        if k == 'LambdaExpr':
            for c in kids(node):
                rec(c, False)
            return
        if k == 'CompoundStmt':
            g = guarded
            for c in kids(node):
                if mutex in guard_of(c, mutexes):
                    # the initialiser of the guard itself is evaluated before the lock is held
                    g = True
                    continue
                rec(c, g)
            return
        if is_access(node) and not guarded:
            n[0] += 1
        for c in kids(node):
            rec(c, guarded)
    rec(body, False)
    return n[0]


def class_functions(trees, cls):
    """(name, body) of every member function defined inside class template `cls` (and nested classes)"""
    out, seen = [], set()

    def rec(n, inside):
        if n.get('name') == cls and (n.get('kind', '').startswith('ClassTemplate') or n.get('kind') == 'CXXRecordDecl'):
            inside = True
        if inside and n.get('kind') in FUNCS:
            body = [c for c in kids(n) if c.get('kind') == 'CompoundStmt']
            pos = str(n.get('range', {}).get('begin', {}))
            if body and pos not in seen:
                seen.add(pos)
                nm = n.get('name', '?')
                if n.get('kind') == 'CXXConstructorDecl':
                    nm = 'constructor'
                if n.get('kind') == 'CXXDestructorDecl':
                    nm = 'destructor'
                out.append((nm, n, body[0]))
        for c in kids(n):
            rec(c, inside)
    for t in trees:
        rec(t, False)
    return out


def unguarded(trees, cls, member, mutex, mutexes):
    acc = {}
    fns = class_functions(trees, cls)
    if not fns:
        raise Untranslatable('%s: no member functions found' % cls)
    for nm, fn, body in fns:
        # constructors: the mem-initialiser list counts too
        extra = 0
        if fn.get('kind') == 'CXXConstructorDecl':
            for c in kids(fn):
                if c.get('kind') == 'CXXCtorInitializer':
                    extra += sum(1 for x in walk(c) if x.get('kind') in ('MemberExpr', 'CXXDependentScopeMemberExpr') and member_name(x) == member)
        k = count_unguarded(body, member, mutex, mutexes) + extra
        if k:
            acc[nm] = acc.get(nm, 0) + k
    return sorted('%s#%d' % (a, b) for a, b in acc.items())


SITES = [
    # (definition name, header, class, member, mutex, all mutex names of the class)
    ('dispatcher_map_unguarded', 'eventpp/eventdispatcher.h', 'EventDispatcherBase', 'eventCallbackListMap', 'listenerMutex', ('listenerMutex',)),
    ('heter_dispatcher_map_unguarded', 'eventpp/hetereventdispatcher.h', 'HeterEventDispatcherBase', 'eventCallbackListMap', 'listenerMutex', ('listenerMutex',)),
    ('list_head_unguarded', 'eventpp/callbacklist.h', 'CallbackListBase', 'head', 'mutex', ('mutex',)),
    ('list_tail_unguarded', 'eventpp/callbacklist.h', 'CallbackListBase', 'tail', 'mutex', ('mutex',)),
    ('list_next_unguarded', 'eventpp/callbacklist.h', 'CallbackListBase', 'next', 'mutex', ('mutex',)),
    ('list_previous_unguarded', 'eventpp/callbacklist.h', 'CallbackListBase', 'previous', 'mutex', ('mutex',)),
    # the private helpers that touch the links are entered with the caller's lock held: calls to them outside a guard
    ('list_doappend_calls_unguarded', 'eventpp/callbacklist.h', 'CallbackListBase', 'doAppend', 'mutex', ('mutex',)),
    ('list_doinsert_calls_unguarded', 'eventpp/callbacklist.h', 'CallbackListBase', 'doInsert', 'mutex', ('mutex',)),
    ('list_dofreenode_calls_unguarded', 'eventpp/callbacklist.h', 'CallbackListBase', 'doFreeNode', 'mutex', ('mutex',)),
    ('queue_list_unguarded', 'eventpp/eventqueue.h', 'EventQueueBase', 'queueList', 'queueListMutex', ('queueListMutex', 'freeListMutex')),
    ('queue_freelist_unguarded', 'eventpp/eventqueue.h', 'EventQueueBase', 'freeList', 'freeListMutex', ('queueListMutex', 'freeListMutex')),
    ('heter_queue_list_unguarded', 'eventpp/hetereventqueue.h', 'HeterEventQueueBase', 'queueList', 'queueListMutex', ('queueListMutex', 'freeListMutex')),
    ('heter_queue_freelist_unguarded', 'eventpp/hetereventqueue.h', 'HeterEventQueueBase', 'freeList', 'freeListMutex', ('queueListMutex', 'freeListMutex')),
]


def leaf_locks(out):
    cache = {}
    lines = ['(* GENERATED by tools/leafgen.py (tools/leaves/locks.py) — do not edit.',
             '   For each guarded member: "function#n" = n accesses in that member function outside the scope of a named',
             '   lock_guard/unique_lock on its mutex. *)',
             'From Coq Require Import String List.', 'Import ListNotations.', 'Local Open Scope string_scope.', '']
    for name, header, cls, member, mutex, mutexes in SITES:
        key = (header, cls)
        if key not in cache:
            cache[key] = clang_ast('#include "%s"\n' % header, cls)
        lst = unguarded(cache[key], cls, member, mutex, mutexes)
        lines.append('(* %s::%s, guarded by %s *)' % (cls, member, mutex))
        lines.append('Definition %s : list string := [%s].' % (name, '; '.join('"%s"' % x for x in lst)))
    out['GenLocks.v'] = '\n'.join(lines) + '\n'


LEAVES = [('locks', leaf_locks)]
