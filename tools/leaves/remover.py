"""leaves of include/eventpp/utilities/scopedremover.h -> coq/gen/GenRemover.v

Structural facts about `ScopedRemover::operator=(ScopedRemover &&)` of BOTH specialisations
(the one for CallbackList-like and the one for EventDispatcher/EventQueue-like targets):

  move_assign_resets      is `reset()` called on *this before the pointer member and `itemList`
                          are overwritten?  (conjunction over the specialisations)
  move_assign_self_guard  is the body guarded by `this != &other` (or an early return on
                          `this == &other`)?  (conjunction)

The body must consist only of: assignments to the two data members from `other`'s,
`reset()` / `other.reset()`, `return *this`, and the self-assignment test.  Anything else is
not guessed: Untranslatable."""
from leafcore import *  # noqa: F401,F403

TU = '''#include "eventpp/callbacklist.h"
#include "eventpp/eventdispatcher.h"
#include "eventpp/eventqueue.h"
#include "eventpp/utilities/scopedremover.h"
template class eventpp::ScopedRemover<eventpp::CallbackList<void()>>;
template class eventpp::ScopedRemover<eventpp::EventDispatcher<int, void()>>;
template class eventpp::ScopedRemover<eventpp::EventQueue<int, void()>>;
'''

POINTERS = ('callbackList', 'dispatcher')


def _is_this(n):
    n = strip(n)
    return n.get('kind') == 'CXXThisExpr'


def _is_other(n):
    n = strip(n)
    return n.get('kind') == 'DeclRefExpr' and n.get('referencedDecl', {}).get('name') == 'other'


def _is_addr_other(n):
    n = strip(n)
    return n.get('kind') == 'UnaryOperator' and n.get('opcode') == '&' and _is_other(kids(n)[0])


def _self_test(cond):
    """returns '!=' / '==' when cond compares this with &other, else None"""
    c = strip(cond)
    if c.get('kind') == 'BinaryOperator' and c.get('opcode') in ('!=', '=='):
        a, b = kids(c)
        if (_is_this(a) and _is_addr_other(b)) or (_is_this(b) and _is_addr_other(a)):
            return c.get('opcode')
    return None


def _member_of_this(n):
    n = strip(n)
    if n.get('kind') == 'MemberExpr' and _is_this(kids(n)[0]):
        return n.get('name')
    return None


def _from_other(n, member):
    """n is other.<member> or std::move(other.<member>)"""
    n = strip(n)
    if n.get('kind') == 'CallExpr':
        cs = kids(n)
        fn = strip(cs[0])
        if fn.get('kind') == 'DeclRefExpr' and fn.get('referencedDecl', {}).get('name') == 'move' and len(cs) == 2:
            n = strip(cs[1])
        else:
            return False
    return n.get('kind') == 'MemberExpr' and n.get('name') == member and _is_other(kids(n)[0])


def _classify(stmt, acts, info):
    s = strip(stmt)
    k = s.get('kind')
    if k == 'CompoundStmt':
        for c in kids(s):
            _classify(c, acts, info)
        return
    if k == 'IfStmt':
        cs = kids(s)
        op = _self_test(cs[0])
        if op == '!=' and len(cs) == 2:
            if acts:
                raise Untranslatable('operator=: self test after other statements')
            info['guard'] = True
            _classify(cs[1], acts, info)
            info['closed_guard'] = True
            return
        if op == '==' and len(cs) == 2:
            then = strip(cs[1])
            body = kids(then) if then.get('kind') == 'CompoundStmt' else [then]
            if len(body) == 1 and strip(body[0]).get('kind') == 'ReturnStmt' and not acts:
                info['guard'] = True
                return
        raise Untranslatable('operator=: unsupported if statement')
    if k == 'ReturnStmt':
        acts.append(('return',))
        return
    if k == 'BinaryOperator' and s.get('opcode') == '=':
        l, r = kids(s)
        m = _member_of_this(l)
        if m in POINTERS and _from_other(r, m):
            acts.append(('assign_ptr', m))
            return
        raise Untranslatable('operator=: unsupported assignment')
    if k == 'CXXOperatorCallExpr':
        cs = kids(s)
        fn = strip(cs[0])
        if fn.get('referencedDecl', {}).get('name') == 'operator=' and len(cs) == 3:
            m = _member_of_this(cs[1])
            if m == 'itemList' and _from_other(cs[2], 'itemList'):
                acts.append(('assign_items',))
                return
        raise Untranslatable('operator=: unsupported operator call')
    if k == 'CXXMemberCallExpr':
        cs = kids(s)
        callee = strip(cs[0])
        if callee.get('kind') == 'MemberExpr' and callee.get('name') == 'reset' and len(cs) == 1:
            base = kids(callee)[0]
            if _is_this(base):
                acts.append(('reset_this',))
                return
            if _is_other(base):
                acts.append(('reset_other',))
                return
        raise Untranslatable('operator=: unsupported member call')
    raise Untranslatable('operator=: unsupported statement kind %s' % k)


def analyse(method):
    body = [c for c in kids(method) if c.get('kind') == 'CompoundStmt']
    if not body:
        raise Untranslatable('operator= without body')
    acts, info = [], {'guard': False}
    _classify(body[0], acts, info)
    kinds = [a[0] for a in acts]
    if kinds.count('assign_items') != 1 or kinds.count('assign_ptr') != 1:
        raise Untranslatable('operator=: expected exactly one assignment to the pointer member and one to itemList')
    if kinds.count('reset_other') != 1 or kinds.index('reset_other') < max(kinds.index('assign_items'), kinds.index('assign_ptr')):
        raise Untranslatable('operator=: other.reset() is expected once, after both assignments')
    first_overwrite = min(kinds.index('assign_items'), kinds.index('assign_ptr'))
    resets = [i for i, a in enumerate(kinds) if a == 'reset_this']
    if any(i > first_overwrite for i in resets):
        raise Untranslatable('operator=: reset() of *this after a member was overwritten')
    ptr = [a[1] for a in acts if a[0] == 'assign_ptr'][0]
    return ptr, bool(resets), info['guard'], kinds


def erase_where_found(trees):
    """every removal of ONE record from an item list (`erase` with one argument) happens in the function that searched for
    the record (find_if / find in the same body), after a lock guard declared in that body: the search and the erase are
    one critical section, so no other removal can shift the records in between.  No single-record erase at all: refused."""
    sites = []
    for t in trees:
        for fn in walk(t):
            if fn.get('kind') not in ('FunctionDecl', 'CXXMethodDecl'):
                continue
            body = [c for c in kids(fn) if c.get('kind') == 'CompoundStmt']
            if not body:
                continue
            erases = []
            for x in walk(body[0]):
                if x.get('kind') in ('CallExpr', 'CXXMemberCallExpr') and kids(x):
                    callee = strip(kids(x)[0])
                    if (member_name(callee) == 'erase' or callee.get('member') == 'erase') and len(kids(x)) == 2:
                        erases.append(x)
            if not erases:
                continue
            # the search: a find / find_if call, or a hand-written loop over the records, in the same body
            searched = any((x.get('name') in ('find_if', 'find')) or member_name(x) in ('find_if', 'find')
                           or (x.get('kind') == 'UnresolvedLookupExpr' and x.get('name') in ('find_if', 'find'))
                           or x.get('kind') in ('ForStmt', 'WhileStmt', 'CXXForRangeStmt', 'DoStmt') for x in walk(body[0]))
            locked = any(x.get('kind') == 'VarDecl' and any(k in (x.get('type') or {}).get('qualType', '') for k in ('unique_lock', 'lock_guard'))
                         for x in walk(body[0]))
            sites.append((fn.get('name'), searched and locked))
    if not sites:
        raise Untranslatable('scopedremover.h: no place where one record is erased from an item list')
    return all(ok for _, ok in sites), sorted(set(nm for nm, _ in sites))


def leaf_remover(out):
    trees = clang_ast(TU, 'ScopedRemover')
    erase_ok, erase_fns = erase_where_found(trees)
    found = {}
    for t in trees:
        if t.get('kind') != 'ClassTemplateSpecializationDecl':
            continue
        for n in kids(t):
            if n.get('kind') == 'CXXMethodDecl' and n.get('name') == 'operator=' and not n.get('isImplicit') \
                    and '&&' in n.get('type', {}).get('qualType', ''):
                ptr, resets, guard, kinds = analyse(n)
                found.setdefault(ptr, []).append((resets, guard, kinds))
    for p in POINTERS:
        if p not in found:
            raise Untranslatable('no instantiated move assignment operator found for the specialisation with member %s' % p)
    resets = all(r for v in found.values() for (r, g, k) in v)
    guard = all(g for v in found.values() for (r, g, k) in v)
    shape = '; '.join('%s: %s' % (p, ' , '.join(found[p][0][2])) for p in POINTERS)
    out['GenRemover.v'] = '''(* GENERATED by tools/leafgen.py from include/eventpp/utilities/scopedremover.h — do not edit *)
(* statement shapes of operator=(ScopedRemover &&): %s *)

(* does move assignment call reset() on *this before overwriting the target pointer and itemList?
   (conjunction over the CallbackList and the EventDispatcher/EventQueue specialisations) *)
Definition move_assign_resets : bool := %s.

(* is move assignment guarded against self-assignment (this != &other)? *)
Definition move_assign_self_guard : bool := %s.

(* is every single record erased from an item list in the function — and under the lock — that searched for it (%s)?
   (the search and the erase are one critical section: nothing can shift the records in between) *)
Definition record_erased_where_found : bool := %s.
''' % (shape, str(resets).lower(), str(guard).lower(), ', '.join(erase_fns), str(erase_ok).lower())


LEAVES = [('remover', leaf_remover)]
