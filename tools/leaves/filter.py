"""leaves of mixins/mixinfilter.h, mixins/mixinheterfilter.h, eventdispatcher.h (directDispatch),
internal/eventpolicies_i.h (ForEachMixins), eventqueue.h (doDispatchQueuedEvent), callbacklist.h
(operator()), utilities/conditionalfunctor.h, utilities/argumentadapter.h -> coq/gen/GenFilter.v

What is translated (everything else about these functions is the hand-written model's business):
  * the forEachIf lambda of mixinBeforeDispatch as a boolean function of the filter's result, and
    the function's own result as a boolean function of (filterList.empty(), forEachIf's result);
    whether the lambda captures the arguments by reference and hands the pack on unchanged;
  * ForEachMixins::forEach as a boolean function of (this mixin, remaining mixins), the remaining
    mixins being evaluated only under the test on the first;
  * directDispatch: the early return as a function of the mixins' result, that every argument is
    passed as typename std::add_lvalue_reference<Args>::type(args), that doFindCallableList comes
    after the mixins;
  * doDispatchQueuedEvent is one call of directDispatch;
  * the lambda of CallbackListBase::operator(): callback first, then a boolean function of the
    policy's answer (the g++ >= 5 branch, which is what the harnesses compile);
  * ConditionalFunctor::operator(): func is called under if(condition(args...));
  * ArgumentAdapter::operator(): every argument goes through static_cast<Args> / StaticCast<Args>::cast."""
from leafcore import *  # noqa: F401,F403

STD = ''.join('#include <%s>\n' % h for h in (
    'algorithm', 'array', 'atomic', 'cassert', 'chrono', 'condition_variable', 'functional', 'list', 'map',
    'memory', 'mutex', 'string', 'thread', 'tuple', 'type_traits', 'unordered_map', 'utility'))
# clang announces itself as GCC 4.2, which would select callbacklist.h's "patch version for GCC 4" of
# operator(); the harnesses are built with g++ 12, so the translator looks at that branch
AS_GCC = STD + '#undef __GNUC__\n#define __GNUC__ 12\n'


def callee_name(call):
    ks = kids(call)
    if not ks:
        return None
    c = strip(ks[0])
    return member_name(c) or c.get('name')


def src_text(n, relpath):
    """the header's own text for a node (dependent names carry no name in the AST dump)"""
    r = n.get('range', {})
    b, e = r.get('begin', {}), r.get('end', {})
    if 'offset' not in b or 'offset' not in e:
        raise Untranslatable('no source range for a %s node' % n.get('kind'))
    data = open(os.path.join(INC, 'eventpp', relpath), 'rb').read()
    return data[b['offset']:e['offset'] + e.get('tokLen', 0)].decode('utf-8', 'replace')


def is_call(n):
    return n.get('kind') in ('CallExpr', 'CXXMemberCallExpr', 'CXXOperatorCallExpr')


def calls_to(n, name):
    return [x for x in walk(n) if is_call(x) and callee_name(x) == name]


def lambda_parts(lam):
    """(parameter names, body CompoundStmt, capture field types) of a LambdaExpr"""
    body = [c for c in kids(lam) if c.get('kind') == 'CompoundStmt']
    if len(body) != 1:
        raise Untranslatable('lambda without a body')
    params, fields = [], []
    for c in kids(lam):
        if c.get('kind') == 'CXXRecordDecl':
            for m in kids(c):
                if m.get('kind') == 'CXXMethodDecl' and m.get('name') == 'operator()':
                    params = [p.get('name') for p in kids(m) if p.get('kind') == 'ParmVarDecl']
                if m.get('kind') == 'FieldDecl':
                    fields.append(m.get('type', {}).get('qualType', ''))
    return params, body[0], fields


def one_lambda(n, what):
    # a LambdaExpr node repeats its body (inside the closure type and as its own child): take top-level ones
    out = []

    def rec(x):
        if x.get('kind') == 'LambdaExpr':
            out.append(x)
            return
        for c in kids(x):
            rec(c)
    rec(n)
    if len(out) != 1:
        raise Untranslatable('%s: expected one lambda, found %d' % (what, len(out)))
    return out[0]


def passes_pack(call, pack, allow_forward):
    """the call's arguments are exactly `pack...` (or std::forward<..>(pack)...)"""
    args = kids(call)[1:]
    if len(args) != 1 or args[0].get('kind') != 'PackExpansionExpr':
        return False
    inner = strip(kids(args[0])[0])
    if inner.get('kind') == 'DeclRefExpr' and member_name(inner) == pack:
        return True
    if allow_forward and is_call(inner) and callee_name(inner) == 'forward':
        a = [strip(x) for x in kids(inner)[1:]]
        return len(a) == 1 and a[0].get('kind') == 'DeclRefExpr' and member_name(a[0]) == pack
    return False


def before_dispatch(header, heter):
    """returns (lambda expr over r, function expr over list_empty/fe, by_reference)"""
    trees = clang_ast('#include "eventpp/mixins/%s"\n' % header, 'mixinBeforeDispatch')
    fn, body = find_function(trees, 'mixinBeforeDispatch')
    pack = [p.get('name') for p in kids(fn) if p.get('kind') == 'ParmVarDecl']
    if len(pack) != 1:
        raise Untranslatable('mixinBeforeDispatch: expected one parameter pack')
    ptype = [p.get('type', {}).get('qualType', '') for p in kids(fn) if p.get('kind') == 'ParmVarDecl'][0]
    if not ptype.endswith('...'):
        raise Untranslatable('mixinBeforeDispatch: the parameter is not a pack')
    # a by-reference capture of the pack has the pack's type with one more & (reference to reference in the dump)
    ref_capture = ptype[:-3].replace(' ', '') + '&...'
    lam = one_lambda(body, 'mixinBeforeDispatch')
    params, lbody, fields = lambda_parts(lam)
    if len(params) != 1:
        raise Untranslatable('mixinBeforeDispatch lambda: expected one parameter')
    cb = params[0]
    cbcalls = calls_to(lbody, cb)
    if len(cbcalls) != 1:
        raise Untranslatable('mixinBeforeDispatch lambda: the filter must be called exactly once (found %d calls)' % len(cbcalls))
    by_ref = len(fields) == 1 and fields[0].replace(' ', '') == ref_capture and passes_pack(cbcalls[0], pack[0], heter)
    stmts = kids(lbody)
    # an optional leading statement that is just the call, then returns / ifs
    if stmts and is_call(strip(stmts[0])) and callee_name(strip(stmts[0])) == cb:
        stmts = stmts[1:]
        if calls_to({'inner': stmts}, cb):
            raise Untranslatable('mixinBeforeDispatch lambda: filter called twice')

    def atom_l(n):
        if is_call(n) and callee_name(n) == cb:
            return 'r'
        return None
    lam_expr = stmts_to_expr(Tr(atom_l), stmts)

    def atom_f(n):
        if is_call(n):
            nm = callee_name(n)
            if nm == 'empty' and any(member_name(x) == 'filterList' for x in walk(n)):
                return 'list_empty'
            if nm == 'forEachIf' and any(member_name(x) == 'filterList' for x in walk(kids(n)[0])):
                return 'fe'
            raise Untranslatable('mixinBeforeDispatch: unexpected call %s' % nm)
        return None
    fn_expr = stmts_to_expr(Tr(atom_f), kids(body))
    if len(calls_to(body, 'forEachIf')) != 1:
        raise Untranslatable('mixinBeforeDispatch: forEachIf must occur once')
    return lam_expr, fn_expr, by_ref


def leaf_filter(out):
    lam1, fn1, ref1 = before_dispatch('mixinfilter.h', False)
    lam2, fn2, ref2 = before_dispatch('mixinheterfilter.h', True)
    if 'list_empty' in fn2:
        raise Untranslatable('MixinHeterFilter::mixinBeforeDispatch: unexpected empty() test')

    # ---- ForEachMixins::forEach (the non-empty MixinList specialisation)
    trees = clang_ast('#include "eventpp/eventdispatcher.h"\n', 'ForEachMixins')
    # the non-empty MixinList specialisation: the one whose forEach goes on to ForEachMixins<...>::forEach for the rest
    fn, body = find_function(trees, 'forEach', pred=lambda n: any(x.get('kind') == 'CallExpr' and 'ForEachMixins<' in ''.join(src_text(kids(x)[0], 'internal/eventpolicies_i.h').split()) for x in walk(n) if kids(x)))

    POL = 'internal/eventpolicies_i.h'

    def is_foreach(n):
        return is_call(n) and kids(n) and ''.join(src_text(kids(n)[0], POL).split()).endswith('forEach') or \
            (is_call(n) and kids(n) and 'forEach<' in ''.join(src_text(kids(n)[0], POL).split()))

    def is_rest(n):
        return 'ForEachMixins<' in ''.join(src_text(kids(n)[0], POL).split())

    def atom_m(n):
        if is_foreach(n):
            return 'rest' if is_rest(n) else 'first'
        return None
    chain = stmts_to_expr(Tr(atom_m), kids(body))
    # the remaining mixins are evaluated only when the first one answered true (path condition of the one call for the
    # rest, short-circuit operators included); the first is asked once
    rest_calls = [x for x in walk(body) if is_foreach(x) and is_rest(x)]
    first_calls = [x for x in walk(body) if is_foreach(x) and not is_rest(x)]
    if first_calls and ''.join(src_text(kids(first_calls[0])[0], POL).split()) != 'Func::templateforEach<Type>':
        raise Untranslatable('ForEachMixins::forEach: the first call is not Func::template forEach<Type>')
    if len(rest_calls) != 1 or len(first_calls) != 1:
        raise Untranslatable('ForEachMixins::forEach: unexpected shape')
    F1 = ('atom', 'first')
    hits = reached_under(body, lambda n: F1 if n is first_calls[0] else None, lambda x: x is rest_calls[0])
    if len(hits) != 1 or not implies(hits[0][1], F1):
        raise Untranslatable('ForEachMixins::forEach: the remaining mixins are not under the test on the first')

    # ---- EventDispatcherBase::directDispatch
    trees = clang_ast('#include "eventpp/eventdispatcher.h"\n', 'directDispatch')
    fn, body = find_function(trees, 'directDispatch')
    stmts = kids(body)
    # the mixins are asked exactly once; the lookup of the listener list (and with it the dispatch) is reached under a
    # condition on their answer alone — decided on path conditions, so that `if(! ok) return; lookup`,
    # `if(ok) { lookup }` and `const bool ok = ...; if(ok) { lookup }` are read alike
    mcalls = calls_to(body, 'forEach')
    gsrc = ''.join(src_text(kids(mcalls[0])[0], 'eventdispatcher.h').split()) if len(mcalls) == 1 else ''
    if len(mcalls) != 1 or not gsrc.startswith('internal_::ForEachMixins<') or not gsrc.endswith(',DoMixinBeforeDispatch>::forEach'):
        raise Untranslatable('directDispatch: the mixins are not asked once through ForEachMixins<..., DoMixinBeforeDispatch>::forEach')
    alias = set()
    for v in find_all(body, 'VarDecl'):
        if any(x is mcalls[0] for x in walk(v)):
            alias.add(v.get('id'))
    M = ('atom', 'mixins_ok')

    def classify_g(n):
        if n is mcalls[0]:
            return M
        if n.get('kind') == 'DeclRefExpr' and (n.get('referencedDecl') or {}).get('id') in alias:
            return M
        return None
    hits = reached_under(body, classify_g, lambda x: is_call(x) and 'doFindCallableList' in src_text(x, 'eventdispatcher.h')
                         and not any(is_call(y) and y is not x and 'doFindCallableList' in src_text(y, 'eventdispatcher.h') for y in walk(x)))
    if not hits:
        raise Untranslatable('directDispatch: no doFindCallableList')
    tables = set()
    for _, pc in hits:
        from leafcore import _atoms, _ev
        if _atoms(pc, set()) - {'mixins_ok'}:
            raise Untranslatable('directDispatch: the lookup depends on more than the mixins\' answer')
        tables.add((_ev(pc, {'mixins_ok': True}), _ev(pc, {'mixins_ok': False})))
    if len(tables) != 1:
        raise Untranslatable('directDispatch: lookups under different conditions')
    on_true, on_false = tables.pop()
    bb = lambda v: 'true' if v else 'false'   # noqa: E731
    gate_expr = '(if (negb mixins_ok) then false else true)' if (on_true, on_false) == (True, False) else \
        '(if mixins_ok then %s else %s)' % (bb(on_true), bb(on_false))
    lookup_after = not on_false
    margs = kids(mcalls[0])[1:]
    if not margs or strip(margs[0]).get('kind') != 'CXXThisExpr':
        raise Untranslatable('directDispatch: forEach is not called with this first')
    lv = len(margs) == 2 and margs[1].get('kind') == 'PackExpansionExpr'
    if lv:
        inner = kids(margs[1])[0]
        ty = inner.get('type', {}).get('qualType', '')
        src = [strip(x) for x in kids(inner)]
        lv = (inner.get('kind') in ('CXXUnresolvedConstructExpr', 'CXXFunctionalCastExpr') and 'add_lvalue_reference<Args>::type' in ty
              and len(src) == 1 and src[0].get('kind') == 'DeclRefExpr' and member_name(src[0]) == 'args')

    # ---- EventQueueBase::doDispatchQueuedEvent
    trees = clang_ast('#include "eventpp/eventqueue.h"\n', 'doDispatchQueuedEvent')
    fn, body = find_function(trees, 'doDispatchQueuedEvent')
    qs = kids(body)
    through = (len(qs) == 1 and is_call(strip(qs[0]))
               and ''.join(src_text(kids(strip(qs[0]))[0], 'eventqueue.h').split()) in ('this->directDispatch', 'directDispatch', 'super::directDispatch'))

    # ---- CallbackListBase::operator()
    trees = clang_ast(AS_GCC + '#include "eventpp/callbacklist.h"\n', 'CallbackListBase')
    fn, body = find_function(trees, 'operator()', pred=lambda n: any(p.get('name') == 'args' for p in kids(n) if p.get('kind') == 'ParmVarDecl'))
    if len(kids(body)) != 1 or not is_call(strip(kids(body)[0])) or src_text(kids(strip(kids(body)[0]))[0], 'callbacklist.h').strip() != 'forEachIf':
        raise Untranslatable('CallbackList::operator(): the body is not one forEachIf call')
    lam = one_lambda(body, 'CallbackList::operator()')
    params, lbody, fields = lambda_parts(lam)
    if len(params) != 1:
        raise Untranslatable('CallbackList::operator() lambda: expected one parameter')
    cb = params[0]
    stmts = kids(lbody)
    idx_cb = [i for i, s in enumerate(stmts) if calls_to(s, cb)]
    idx_cci = [i for i, s in enumerate(stmts) if calls_to(s, 'canContinueInvoking')]
    if len(idx_cb) != 1 or len(calls_to(lbody, cb)) != 1 or not is_call(strip(stmts[idx_cb[0]])) or callee_name(strip(stmts[idx_cb[0]])) != cb:
        raise Untranslatable('CallbackList::operator() lambda: the callback must be called once, in a statement of its own')
    if len(idx_cci) != 1 or len(calls_to(lbody, 'canContinueInvoking')) != 1 or idx_cci[0] == idx_cb[0]:
        raise Untranslatable('CallbackList::operator() lambda: the policy must be asked once, in another statement')
    cci_after = idx_cci[0] > idx_cb[0]
    pvars = set()
    for s in stmts:
        if s.get('kind') == 'DeclStmt':
            for v in kids(s):
                if v.get('kind') == 'VarDecl' and calls_to(v, 'canContinueInvoking'):
                    pvars.add(v.get('name'))

    def atom_c(n):
        if is_call(n) and callee_name(n) == 'canContinueInvoking':
            return 'p'
        if n.get('kind') == 'DeclRefExpr' and member_name(n) in pvars:
            return 'p'
        return None
    rest = [s for i, s in enumerate(stmts) if i != idx_cb[0] and not (s.get('kind') == 'DeclStmt' and calls_to(s, 'canContinueInvoking'))]
    cont = stmts_to_expr(Tr(atom_c), rest)

    # ---- ConditionalFunctor::operator()
    trees = clang_ast('#include "eventpp/utilities/conditionalfunctor.h"\n', 'ConditionalFunctor')
    fn, body = find_function(trees, 'operator()')
    cs = kids(body)
    if len(cs) != 1 or cs[0].get('kind') != 'IfStmt' or len(kids(cs[0])) != 2:
        raise Untranslatable('ConditionalFunctor::operator(): the body is not one if without else')
    ccond, cthen = kids(cs[0])
    if len(calls_to(cthen, 'func')) != 1 or len(calls_to(ccond, 'condition')) != 1 or calls_to(ccond, 'func'):
        raise Untranslatable('ConditionalFunctor::operator(): func / condition not where expected')
    pk = [p.get('name') for p in kids(fn) if p.get('kind') == 'ParmVarDecl']
    if len(pk) != 1 or not passes_pack(calls_to(ccond, 'condition')[0], pk[0], False) or not passes_pack(calls_to(cthen, 'func')[0], pk[0], True):
        raise Untranslatable('ConditionalFunctor::operator(): condition and func do not receive the same arguments')

    def atom_k(n):
        if is_call(n) and callee_name(n) == 'condition':
            return 'c'
        return None
    cond_runs = '(if %s then true else false)' % Tr(atom_k).expr(ccond)

    # ---- ArgumentAdapter::operator() (both specialisations)
    trees = clang_ast('#include "eventpp/utilities/argumentadapter.h"\n', 'ArgumentAdapter')
    seen = 0
    casts_ok = True
    done = set()
    for t in trees:
        for n in walk(t):
            if n.get('kind') == 'CXXMethodDecl' and n.get('name') == 'operator()':
                b = [c for c in kids(n) if c.get('kind') == 'CompoundStmt']
                pos = json_text(n.get('range', {}).get('begin', {}))
                if not b or pos in done:
                    continue
                done.add(pos)
                seen += 1
                st = kids(b[0])
                if len(st) != 1 or not is_call(strip(st[0])) or callee_name(strip(st[0])) != 'func':
                    casts_ok = False
                    continue
                a = kids(strip(st[0]))[1:]
                if len(a) != 1 or a[0].get('kind') != 'PackExpansionExpr':
                    casts_ok = False
                    continue
                # static_cast<Args>(args): the target type is exactly the adapted parameter type (a cast to `Args &&` would
                # hand the wrapped function the caller's own object to move from)
                has_static = any(x.get('kind') == 'CXXStaticCastExpr' and x.get('type', {}).get('qualType', '').strip() == 'Args' for x in walk(a[0]))
                has_helper = any(is_call(x) and callee_name(x) == 'cast'
                                 and ''.join(src_text(kids(x)[0], 'utilities/argumentadapter.h').split()).endswith('StaticCast<Args>::cast') for x in walk(a[0]))
                if not (has_static or has_helper):
                    casts_ok = False
    if seen != 2:
        raise Untranslatable('ArgumentAdapter: expected two operator() definitions, found %d' % seen)

    b = lambda v: 'true' if v else 'false'   # noqa: E731
    out['GenFilter.v'] = '''(* GENERATED by tools/leafgen.py from mixins/mixinfilter.h, mixins/mixinheterfilter.h, eventdispatcher.h,
   eventqueue.h, internal/eventpolicies_i.h, callbacklist.h, utilities/conditionalfunctor.h,
   utilities/argumentadapter.h — do not edit *)
From Coq Require Import Bool.

(* MixinFilter::mixinBeforeDispatch: the forEachIf lambda's result as a function of the filter's result r *)
Definition filter_lambda (r : bool) : bool := %s.
(* ... and the function's result over (filterList.empty(), result of forEachIf) *)
Definition before_dispatch (list_empty fe : bool) : bool := %s.
(* the lambda captures the arguments by reference and hands them on as lvalues *)
Definition filter_args_by_reference : bool := %s.
(* MixinHeterFilter::mixinBeforeDispatch *)
Definition heter_filter_lambda (r : bool) : bool := %s.
Definition heter_before_dispatch (fe : bool) : bool := %s.

(* ForEachMixins::forEach over (this mixin's result, the remaining mixins' result); the remaining mixins are
   only evaluated inside the then-branch of the test on the first *)
Definition mixins_chain (first rest : bool) : bool := %s.

(* EventDispatcherBase::directDispatch: does it go on to the listeners, given the mixins' result *)
Definition dispatch_gate (mixins_ok : bool) : bool := %s.
(* every argument reaches the mixins as typename std::add_lvalue_reference<Args>::type(args) *)
Definition dispatch_passes_lvalue_refs : bool := %s.
(* doFindCallableList is called after the mixin gate *)
Definition lookup_after_mixins : bool := %s.
(* EventQueueBase::doDispatchQueuedEvent is a single call of directDispatch *)
Definition queued_through_direct_dispatch : bool := %s.

(* CallbackListBase::operator(): the lambda calls the callback first and then returns this function of the policy's answer p *)
Definition cci_after_call : bool := %s.
Definition loop_continue (p : bool) : bool := %s.

(* ConditionalFunctor::operator(): is func invoked, given the condition's answer c *)
Definition cond_functor_runs (c : bool) : bool := %s.
(* ArgumentAdapter::operator(): every argument goes through static_cast<Args> (or StaticCast<Args>::cast) *)
Definition adapter_casts_each : bool := %s.
''' % (lam1, fn1, b(ref1 and ref2), lam2, fn2, chain, gate_expr, b(lv), b(lookup_after), b(through),
       b(cci_after), cont, cond_runs, b(casts_ok))


def json_text(n):
    import json
    return json.dumps(n, sort_keys=True)


LEAVES = [('filter', leaf_filter)]
