"""structural facts the C09 fault profiles are built from -> coq/gen/GenExn.v

Every fact is read off the clang AST of the INSTANTIATED member function (explicit
instantiations below): the source-order sequence of the interesting constructs of the body
(calls by callee name, assignments by target member, local variables by type, ++/--, try /
catch / throw) is extracted and a fact is a statement about that sequence, e.g. "the call of
doAllocateNode comes before the lock_guard variable, which comes before the first write to
head/tail".  coq/ExnModel.v builds each operation's fault profile FROM these booleans, so a
header change that flips one of them changes the profile and the strong-guarantee proof of
that operation no longer goes through (and coq/ExnQueue.v's unwinding rules change with the
CounterGuard / try-catch facts).

A function that cannot be found, or whose shape is outside what is recognised (e.g. the add
call of a ScopedRemover adder cannot be located), is Untranslatable: nothing is guessed."""
from leafcore import *  # noqa: F401,F403

TU = '''#include "eventpp/callbacklist.h"
#include "eventpp/eventdispatcher.h"
#include "eventpp/eventqueue.h"
#include "eventpp/hetercallbacklist.h"
#include "eventpp/utilities/scopedremover.h"
#include "eventpp/utilities/counterremover.h"
#include "eventpp/utilities/conditionalremover.h"
#include "eventpp/utilities/orderedqueuelist.h"
struct VCb { void operator()(int) const {} };
struct VCond { bool operator()(int) const { return true; } };
struct VOrd { template <typename T> using QueueList = eventpp::OrderedQueueList<T>; };
using VCL = eventpp::CallbackList<void(int)>;
using VD = eventpp::EventDispatcher<int, void(int)>;
using VQ = eventpp::EventQueue<int, void(int)>;
using VOQ = eventpp::EventQueue<int, void(int), VOrd>;
using VH = eventpp::HeterCallbackList<eventpp::HeterTuple<void(), void(int)>>;
template class eventpp::internal_::CallbackListBase<void(int), eventpp::DefaultPolicies>;
template class eventpp::internal_::EventDispatcherBase<int, void(int), eventpp::DefaultPolicies, void>;
template class eventpp::internal_::EventQueueBase<int, void(int), eventpp::DefaultPolicies>;
template class eventpp::ScopedRemover<VCL>;
template class eventpp::ScopedRemover<VD>;
void vuse(VCL & cl, VD & d, VQ & q, VOQ & oq, VH & h, VH & h2) {
	eventpp::ScopedRemover<VCL> r1(cl); r1.append(VCb()); r1.prepend(VCb()); r1.insert(VCb(), VCL::Handle());
	eventpp::ScopedRemover<VD> r2(d); r2.appendListener(1, VCb()); r2.prependListener(1, VCb()); r2.insertListener(1, VCb(), VD::Handle());
	eventpp::counterRemover(d).appendListener(1, VCb(), 1);
	eventpp::counterRemover(cl).append(VCb(), 1);
	eventpp::conditionalRemover(d).appendListener(1, VCb(), VCond());
	eventpp::conditionalRemover(cl).append(VCb(), VCond());
	oq.enqueue(1, 2); oq.process();
	q.processIf([](int) { return true; }); q.processUntil([](int) { return true; });
	h2 = h;
}
'''


def off(n):
    r = n.get('range', {}).get('begin', {})
    if 'offset' in r:
        return r['offset']
    for k in ('expansionLoc', 'spellingLoc'):
        if k in r and 'offset' in r[k]:
            return r[k]['offset']
    return None


def base_names(n):
    """names of members / variables an expression is rooted at, outermost first"""
    out = []
    for x in walk(n):
        k = x.get('kind')
        if k == 'MemberExpr':
            out.append(x.get('name'))
        elif k == 'DeclRefExpr':
            out.append(x.get('referencedDecl', {}).get('name'))
    return [o for o in out if o]


def marks(body):
    """[(offset, label, node)] in source order"""
    out = []
    for n in walk(body):
        k = n.get('kind')
        o = off(n)
        if o is None:
            continue
        if k in ('CXXMemberCallExpr', 'CallExpr'):
            ks = kids(n)
            callee = strip(ks[0]) if ks else {}
            nm = member_name(callee)
            if nm:
                # the object a member function is called on (first name below the callee)
                obj = base_names(callee)[1:2]
                out.append((o, 'call:' + nm, n, obj[0] if obj else ''))
        elif k == 'CXXOperatorCallExpr':
            ks = kids(n)
            fn = strip(ks[0]) if ks else {}
            nm = fn.get('referencedDecl', {}).get('name', '')
            if nm == 'operator=' and len(ks) >= 2:
                tgt = base_names(ks[1])
                out.append((o, 'assign', n, tgt[0] if tgt else ''))
            elif nm == 'operator[]' and len(ks) >= 2:
                tgt = base_names(ks[1])
                out.append((o, 'index', n, tgt[0] if tgt else ''))
            elif nm in ('operator++', 'operator--') and len(ks) >= 2:
                tgt = base_names(ks[1])
                out.append((o, 'incdec', n, tgt[0] if tgt else ''))
            elif nm == 'operator()':
                tgt = base_names(ks[1]) if len(ks) >= 2 else []
                out.append((o, 'invoke', n, tgt[0] if tgt else ''))
        elif k == 'BinaryOperator' and n.get('opcode') == '=':
            tgt = base_names(kids(n)[0])
            out.append((o, 'assign', n, tgt[0] if tgt else ''))
        elif k == 'UnaryOperator' and n.get('opcode') in ('++', '--'):
            tgt = base_names(kids(n)[0])
            out.append((o, 'incdec', n, tgt[0] if tgt else ''))
        elif k == 'VarDecl':
            out.append((o, 'var', n, n.get('type', {}).get('qualType', '')))
        elif k == 'CXXTryStmt':
            out.append((o, 'try', n, ''))
        elif k == 'CXXCatchStmt':
            out.append((o, 'catch', n, ''))
        elif k == 'CXXThrowExpr':
            out.append((o, 'throw', n, ''))
    out.sort(key=lambda m: m[0])
    return out


def first(ms, pred, what, required=True):
    for m in ms:
        if pred(m):
            return m[0]
    if required:
        raise Untranslatable(what + ' not found')
    return None


def last(ms, pred):
    r = None
    for m in ms:
        if pred(m):
            r = m[0]
    return r


class Classes:
    def __init__(self):
        self.cache = {}

    def methods(self, cls, want_args=None):
        """{name: [(decl, body)]} of the instantiated specialisations of class template cls"""
        if cls in self.cache:
            return self.cache[cls]
        trees = clang_ast(TU, cls)
        out = {}
        for t in trees:
            for n in walk(t):
                if n.get('kind') in ('CXXMethodDecl', 'CXXConstructorDecl', 'FunctionDecl'):
                    body = [c for c in kids(n) if c.get('kind') == 'CompoundStmt']
                    if body and not _dependent(n):
                        out.setdefault(n.get('name'), []).append((n, body[0]))
        self.cache[cls] = out
        return out


def _dependent(fn):
    """true for the uninstantiated pattern of a template member (its body mentions dependent constructs)"""
    q = fn.get('type', {}).get('qualType', '')
    for n in walk(fn):
        k = n.get('kind')
        if k in ('CXXDependentScopeMemberExpr', 'UnresolvedMemberExpr', 'UnresolvedLookupExpr', 'DependentScopeDeclRefExpr',
                 'CXXUnresolvedConstructExpr'):
            return True
    return 'type-parameter' in q


def one(cl, cls, name, pred=None):
    ms = cl.methods(cls).get(name, [])
    if pred:
        ms = [m for m in ms if pred(m[0])]
    if not ms:
        raise Untranslatable('%s::%s: no instantiated body found' % (cls, name))
    return ms


def is_call(name, obj=None):
    return lambda m: m[1] == 'call:' + name and (obj is None or m[3] == obj)


def is_assign(*targets):
    return lambda m: m[1] == 'assign' and m[3] in targets


def is_var(prefix):
    return lambda m: m[1] == 'var' and prefix in m[3]


def has_try(ms):
    return any(m[1] in ('try', 'catch') for m in ms)


# ------------------------------------------------------------------------------ the facts

def cl_facts(cl, f):
    C = 'CallbackListBase'

    def link_write(m):
        # an assignment whose TARGET is head / tail or some node's previous / next (the names of locals and parameters
        # do not matter)
        return (m[1] == 'assign' and
                any(x in base_names(kids(m[2])[1] if m[2].get('kind') == 'CXXOperatorCallExpr' else kids(m[2])[0])
                    for x in ('head', 'tail', 'previous', 'next')))
    # the private link helpers: member functions that write the links and take no lock themselves (doAppend, doInsert, ...)
    linkers = set()
    for name, bodies in cl.methods(C).items():
        mss = [marks(body) for _, body in bodies]
        if any(link_write(m) for ms in mss for m in ms) and not any(is_var('lock_guard')(m) for ms in mss for m in ms):
            linkers.add('call:' + name)
    for op in ('append', 'prepend', 'insert'):
        ok = True
        for decl, body in one(cl, C, op):
            ms = marks(body)
            a = first(ms, is_call('doAllocateNode'), '%s: doAllocateNode call' % op, required=False)
            lk = first(ms, is_var('lock_guard'), '%s: lock_guard' % op, required=False)
            wr = first(ms, lambda m: link_write(m) or m[1] in linkers, '%s: link step' % op, required=False)
            if wr is None:
                raise Untranslatable('CallbackListBase::%s: no write to head/tail/previous/next found' % op)
            # the node is born with the caller's callback (doAllocateNode(callback)) and its callback member is
            # never written afterwards
            alloc = [m for m in ms if m[1] == 'call:doAllocateNode']
            born = bool(alloc) and all('callback' in base_names(m[2])[1:] for m in alloc)
            late = any(m[1] == 'assign' and m[3] == 'callback' for m in ms)
            ok = ok and a is not None and lk is not None and a < lk < wr and born and not late and not has_try(ms)
        f['cl_%s_builds_node_before_link' % op] = ok
    # doAllocateNode: make_shared<Node>(callback, ...) — the node is born holding its callback copy
    ok = True
    for decl, body in one(cl, C, 'doAllocateNode'):
        ms = marks(body)
        mk = [m for m in ms if m[1] == 'call:make_shared']
        ok = ok and len(mk) == 1 and 'callback' in base_names(mk[0][2])
    f['cl_node_constructed_with_callback'] = ok
    # Node(const Callback &, Counter): callback(callback) in the initialiser list
    trees = clang_ast(TU, 'CallbackListBase')
    inits = []
    for t in trees:
        for n in walk(t):
            if n.get('kind') == 'CXXConstructorDecl' and n.get('name') == 'Node' and \
                    len([p for p in kids(n) if p.get('kind') == 'ParmVarDecl']) == 2 and \
                    any(c.get('kind') == 'CompoundStmt' for c in kids(n)):
                here = False
                for c in kids(n):
                    if c.get('kind') == 'CXXCtorInitializer' and (c.get('anyInit') or {}).get('name') == 'callback':
                        here = here or 'callback' in base_names(c)
                inits.append(here)
    f['cl_node_constructed_with_callback'] = f['cl_node_constructed_with_callback'] and bool(inits) and all(inits)
    # operator=(const &): CallbackListBase copied(other); swap(copied);
    ok = None
    for decl, body in one(cl, C, 'operator=', lambda d: '&&' not in d.get('type', {}).get('qualType', '')):
        ms = marks(body)
        cp = first(ms, lambda m: m[1] == 'var' and 'CallbackListBase' in m[3] and 'other' in base_names(m[2]), 'copy', required=False)
        sw = first(ms, is_call('swap'), 'swap', required=False)
        direct = any(m[1] == 'assign' and m[3] in ('head', 'tail', 'currentCounter') for m in ms) or \
            any(m[1] in ('call:cloneFrom', 'call:doFreeAllNodes', 'call:append', 'call:doAppend') for m in ms)
        ok = (ok is None or ok) and cp is not None and sw is not None and cp < sw and not direct and not has_try(ms)
    f['cl_copy_assign_copy_then_swap'] = bool(ok)
    # copy constructor delegates to the default constructor (so ~CallbackListBase runs when cloneFrom throws)
    deleg = False
    for t in trees:
        for n in walk(t):
            if n.get('kind') == 'CXXConstructorDecl' and n.get('name') == 'CallbackListBase' and not _dependent(n):
                q = n.get('type', {}).get('qualType', '')
                if 'const ' in q and '&&' not in q:
                    inits = [c for c in kids(n) if c.get('kind') == 'CXXCtorInitializer']
                    body = [c for c in kids(n) if c.get('kind') == 'CompoundStmt']
                    if body and any(c.get('delegatingInit') or 'delegatingInit' in c for c in inits):
                        deleg = deleg or any(m[1] == 'call:cloneFrom' for m in marks(body[0]))
    f['cl_copy_ctor_delegates_then_clones'] = deleg
    # the invocation loop has no try/catch (an exception of a callback goes straight to the caller)
    notry = True
    for nm in ('operator()', 'doForEachIf', 'forEachIf', 'forEach'):
        for decl, body in cl.methods(C).get(nm, []):
            notry = notry and not has_try(marks(body))
    f['cl_invoke_has_no_catch'] = notry


def disp_facts(cl, f):
    C = 'EventDispatcherBase'
    for op, inner in (('appendListener', 'append'), ('prependListener', 'prepend'), ('insertListener', 'insert')):
        ok = True
        for decl, body in one(cl, C, op):
            ms = marks(body)
            lk = first(ms, is_var('lock_guard'), 'lock', required=False)
            ix = first(ms, lambda m: m[1] == 'index' and m[3] == 'eventCallbackListMap', 'map index', required=False)
            ad = first(ms, is_call(inner), inner, required=False)
            others = [m for m in ms if m[1] in ('assign', 'incdec') or (m[1].startswith('call:') and m[1] not in ('call:' + inner,))]
            ok = ok and None not in (lk, ix, ad) and lk < ad and not others and not has_try(ms)
        f['disp_%s_is_index_then_add' % op.replace('Listener', '')] = ok
    ok = True
    for decl, body in one(cl, C, 'operator=', lambda d: '&&' not in d.get('type', {}).get('qualType', '')):
        ms = marks(body)
        ok = ok and any(m[1] == 'assign' and m[3] == 'eventCallbackListMap' for m in ms) and not any(m[1] == 'call:swap' for m in ms)
    f['disp_copy_assign_memberwise'] = ok
    notry = True
    for nm in ('directDispatch', 'dispatch', 'doFindCallableListHelper'):
        for decl, body in cl.methods(C).get(nm, []):
            notry = notry and not has_try(marks(body))
    if not cl.methods(C).get('directDispatch'):
        raise Untranslatable('EventDispatcherBase::directDispatch: no instantiated body found')
    f['disp_dispatch_has_no_catch'] = notry


def queue_facts(cl, f):
    C = 'EventQueueBase'
    # doEnqueue: the slot is filled (set) while it is still in the LOCAL list; only then the locked splice
    ok = True
    for decl, body in one(cl, C, 'doEnqueue'):
        ms = marks(body)
        st = first(ms, is_call('set'), 'set', required=False)
        sp = first(ms, is_call('splice', 'queueList'), 'queueList.splice', required=False)
        if sp is None:
            raise Untranslatable('doEnqueue: queueList.splice not found')
        # the LOCAL list: the local variable that queueList.splice takes its node from (whatever it is called)
        spn = [m for m in ms if m[0] == sp][0][2]
        locals_ = dict((m[2].get('id'), m[0]) for m in ms if m[1] == 'var')
        srcs = [locals_[(x.get('referencedDecl') or {}).get('id')] for x in walk(spn)
                if x.get('kind') == 'DeclRefExpr' and (x.get('referencedDecl') or {}).get('id') in locals_]
        tl = min(srcs) if srcs else None
        later = [m for m in ms if m[0] > sp and (m[1] in ('call:set', 'assign', 'invoke') or m[1] == 'call:emplace_back')]
        ok = ok and None not in (tl, st) and tl < st < sp and not later and not has_try(ms)
    f['eq_enqueue_fills_slot_before_splice'] = ok
    # peekEvent: one assignment from queueList.front().get(); the queue itself is not touched
    ok = True
    for decl, body in one(cl, C, 'peekEvent'):
        ms = marks(body)
        bad = [m for m in ms if m[1] in ('call:splice', 'call:swap', 'call:clear', 'call:pop_front', 'call:erase', 'incdec')]
        ok = ok and not bad and any(m[1] == 'call:front' for m in ms) and not has_try(ms)
    f['eq_peek_does_not_touch_queue'] = ok
    # process*: CounterGuard object and the local list exist before events are taken; no manual ++/-- of the counter
    for op in ('process', 'processOne', 'processIf', 'processUntil'):
        ok = True
        for decl, body in one(cl, C, op):
            ms = marks(body)
            g = first(ms, is_var('CounterGuard'), 'CounterGuard', required=False)
            take = first(ms, lambda m: (m[1] == 'call:swap' and 'queueList' in base_names(m[2])) or
                         (m[1] == 'call:splice' and 'queueList' in base_names(m[2])), 'take', required=False)
            if take is None:
                raise Untranslatable('%s: the statement that takes events out of queueList was not found' % op)
            # the LOCAL list the events are taken into (whatever it is called): a non-static local named in that statement
            tkn = [m for m in ms if m[0] == take][0][2]
            locs = dict((m[2].get('id'), m[0]) for m in ms if m[1] == 'var' and m[2].get('storageClass') != 'static')
            srcs = [locs[(x.get('referencedDecl') or {}).get('id')] for x in walk(tkn)
                    if x.get('kind') == 'DeclRefExpr' and (x.get('referencedDecl') or {}).get('id') in locs]
            tl = min(srcs) if srcs else None
            manual = any(m[1] == 'incdec' and m[3] == 'queueEmptyCounter' for m in ms) or \
                any(m[1] == 'assign' and m[3] == 'queueEmptyCounter' for m in ms)
            ok = ok and None not in (g, tl) and g < take and tl < take and not manual
        f['eq_%s_counter_guard_is_raii' % op] = ok
    notry = True
    for op in ('process', 'processOne', 'processIf', 'processUntil', 'doDispatchQueuedEvent', 'doInvokeFuncWithQueuedEvent',
               'doInvokeFuncWithQueuedEventHelper'):
        for decl, body in cl.methods(C).get(op, []):
            notry = notry and not has_try(marks(body))
    f['eq_process_has_no_catch'] = notry
    ok = True
    for decl, body in one(cl, C, 'operator=', lambda d: '&&' not in d.get('type', {}).get('qualType', '')):
        ms = marks(body)
        ok = ok and any(m[1] in ('call:operator=',) for m in ms) and not any(m[1] == 'call:swap' for m in ms)
    f['eq_copy_assign_memberwise'] = ok
    # CounterGuard: ++ in the constructor, -- in the destructor
    trees = clang_ast(TU, 'CounterGuard')
    inc = dec = False
    for t in trees:
        for n in walk(t):
            if n.get('kind') == 'CXXConstructorDecl' and n.get('name') == 'CounterGuard':
                inc = inc or any(x.get('kind') in ('UnaryOperator', 'CXXOperatorCallExpr') and
                                 (x.get('opcode') == '++' or 'operator++' in str([c.get('referencedDecl', {}).get('name') for c in walk(x)]))
                                 for x in walk(n))
            if n.get('kind') == 'CXXDestructorDecl':
                dec = dec or any(x.get('kind') in ('UnaryOperator', 'CXXOperatorCallExpr') and
                                 (x.get('opcode') == '--' or 'operator--' in str([c.get('referencedDecl', {}).get('name') for c in walk(x)]))
                                 for x in walk(n))
    f['counter_guard_inc_in_ctor_dec_in_dtor'] = inc and dec


def oql_facts(cl, f):
    C = 'OrderedQueueList'
    found = False
    sort_after = False
    commit_last = True
    for decl, body in cl.methods(C).get('splice', []):
        nparm = len([p for p in kids(decl) if p.get('kind') == 'ParmVarDecl'])
        if nparm != 3:
            continue
        found = True
        ms = marks(body)
        sp = last(ms, lambda m: m[1] == 'call:splice')
        if sp is None:
            raise Untranslatable('OrderedQueueList::splice(pos, other, it): no call of std::list::splice')
        after = [m for m in ms if m[0] > sp and (m[1] in ('call:doSort', 'call:sort', 'invoke', 'call:get', 'call:empty'))]
        sort_after = sort_after or any(m[1] in ('call:doSort', 'call:sort') for m in after)
        commit_last = commit_last and not after and not has_try(ms)
    if not found:
        raise Untranslatable('OrderedQueueList::splice(pos, other, it): no instantiated body found')
    f['oql_single_splice_sorts_after_splicing'] = sort_after
    f['oql_single_splice_is_last_step'] = commit_last


def sr_facts(cl, f):
    C = 'ScopedRemover'
    adders = {'appendListener': 'appendListener', 'prependListener': 'prependListener', 'insertListener': 'insertListener',
              'append': 'append', 'prepend': 'prepend', 'insert': 'insert'}
    add_first = True
    rollback = True
    seen = set()
    for name, inner in adders.items():
        for decl, body in cl.methods(C).get(name, []):
            ms = marks(body)
            ad = first(ms, lambda m: m[1] == 'call:' + inner and m[3] in ('dispatcher', 'callbackList'), 'add', required=False)
            pb = first(ms, lambda m: m[1] in ('call:push_back', 'call:emplace_back') and m[3] == 'itemList', 'record', required=False)
            rms = ms
            if ad is not None and pb is None:
                # the recording step may live in a member function of its own (a private helper a refactoring extracts):
                # a call of a ScopedRemover member whose body does the push_back; the rollback is then looked for there
                for m in ms:
                    if not m[1].startswith('call:'):
                        continue
                    for decl2, body2 in cl.methods(C).get(m[1][5:], []):
                        ms2 = marks(body2)
                        if any(x[1] in ('call:push_back', 'call:emplace_back') and x[3] == 'itemList' for x in ms2):
                            pb, rms = m[0], ms2
                            break
                    if pb is not None:
                        break
            if ad is None or pb is None:
                raise Untranslatable('ScopedRemover::%s: add call / itemList.push_back not found' % name)
            seen.add(name)
            add_first = add_first and ad < pb
            # rollback: push_back lies inside a try block whose handler detaches the listener again and rethrows
            rb = False
            for m in rms:
                if m[1] == 'try':
                    tr = m[2]
                    parts = kids(tr)
                    blk = parts[0] if parts else {}
                    handlers = [p for p in parts[1:] if p.get('kind') == 'CXXCatchStmt']
                    inside = any(x[1] in ('call:push_back', 'call:emplace_back') for x in marks(blk))
                    for h in handlers:
                        hm = marks(h)
                        undo = any(x[1] in ('call:removeListener', 'call:remove') and x[3] in ('dispatcher', 'callbackList') for x in hm)
                        re = any(x[1] == 'throw' and not kids(x[2]) for x in hm)
                        catch_all = not any(c.get('kind') == 'VarDecl' for c in kids(h))
                        rb = rb or (inside and undo and re and catch_all)
            rollback = rollback and rb
    if seen != set(adders):
        raise Untranslatable('ScopedRemover: adders not all instantiated: %s' % sorted(set(adders) - seen))
    f['sr_add_attaches_before_recording'] = add_first
    f['sr_add_failed_record_detaches_and_rethrows'] = rollback


def auto_facts(cl, f):
    for cls, key in (('CounterRemover', 'counter'), ('ConditionalRemover', 'conditional')):
        ok = True
        n = 0
        # the shared Data record is built by make_shared, directly or in a member function that does just that (a
        # private factory a refactoring may introduce)
        makers = set(['call:make_shared'])
        for hn, bodies in cl.methods(cls).items():
            if any(any(m[1] == 'call:make_shared' for m in marks(b)) and not any(m[1] in ('call:appendListener', 'call:prependListener',
                   'call:insertListener', 'call:append', 'call:prepend', 'call:insert') for m in marks(b)) for _, b in bodies):
                makers.add('call:' + hn)
        for name in ('appendListener', 'prependListener', 'insertListener', 'append', 'prepend', 'insert'):
            for decl, body in cl.methods(cls).get(name, []):
                ms = marks(body)
                mk = first(ms, lambda m: m[1] in makers, 'make_shared', required=False)
                ad = first(ms, lambda m: m[1] == 'call:' + name and m[3] in ('dispatcher', 'callbackList'), 'add', required=False)
                if mk is None or ad is None:
                    raise Untranslatable('%s::%s: make_shared / add call not found' % (cls, name))
                n += 1
                # after the add: only the noexcept store of the handle
                later = [m for m in ms if m[0] > ad and (m[1].startswith('call:') and m[1] not in ('call:operator->',) or m[1] in ('invoke', 'index'))]
                ok = ok and mk < ad and not later and not has_try(ms)
        if n == 0:
            raise Untranslatable('%s: no instantiated adder found' % cls)
        f['%s_remover_builds_data_before_add' % key] = ok


def hcl_facts(cl, f):
    C = 'HeterCallbackListBase'
    ok = None
    for decl, body in one(cl, C, 'operator=', lambda d: '&&' not in d.get('type', {}).get('qualType', '')):
        ms = marks(body)
        cp = first(ms, lambda m: m[1] == 'var' and 'HeterCallbackListBase' in m[3] and 'other' in base_names(m[2]), 'copy', required=False)
        sw = first(ms, is_call('swap'), 'swap', required=False)
        direct = any(m[1] == 'assign' and m[3] == 'callbackListList' for m in ms) or any(m[1] == 'call:doClone' for m in ms)
        ok = (ok is None or ok) and cp is not None and sw is not None and cp < sw and not direct and not has_try(ms)
    f['hcl_copy_assign_copy_then_swap'] = bool(ok)


DOC = {
    'cl_append_builds_node_before_link': 'CallbackList::append: doAllocateNode(callback) < lock_guard < first write to head/tail/previous/next',
    'cl_prepend_builds_node_before_link': 'same for prepend',
    'cl_insert_builds_node_before_link': 'same for insert (doInsert/doAppend are the link step)',
    'cl_node_constructed_with_callback': 'doAllocateNode passes the callback to make_shared<Node> and Node() copies it in its initialiser list',
    'cl_copy_assign_copy_then_swap': 'operator=(const&): CallbackListBase copied(other); swap(copied); no direct member writes',
    'cl_copy_ctor_delegates_then_clones': 'copy constructor delegates to the default constructor and then calls cloneFrom',
    'cl_invoke_has_no_catch': 'operator(), forEach, forEachIf, doForEachIf contain no try/catch',
    'disp_append_is_index_then_add': 'appendListener: lock_guard; eventCallbackListMap[event].append(callback); nothing else',
    'disp_prepend_is_index_then_add': 'same for prependListener',
    'disp_insert_is_index_then_add': 'same for insertListener',
    'disp_copy_assign_memberwise': 'EventDispatcherBase::operator=(const&) assigns the map member (basic guarantee only)',
    'disp_dispatch_has_no_catch': 'dispatch / directDispatch / doFindCallableListHelper contain no try/catch',
    'eq_enqueue_fills_slot_before_splice': 'doEnqueue: local tempList < it->set(...) < queueList.splice, nothing that can throw afterwards',
    'eq_peek_does_not_touch_queue': 'peekEvent only assigns from queueList.front().get()',
    'eq_process_counter_guard_is_raii': 'process: CounterGuard local and local tempList declared before events leave queueList; no manual ++/--',
    'eq_processOne_counter_guard_is_raii': 'same for processOne',
    'eq_processIf_counter_guard_is_raii': 'same for processIf',
    'eq_processUntil_counter_guard_is_raii': 'same for processUntil',
    'eq_process_has_no_catch': 'process* and the queued-event dispatch helpers contain no try/catch',
    'eq_copy_assign_memberwise': 'EventQueueBase::operator=(const&) forwards to the dispatcher assignment (basic guarantee only)',
    'counter_guard_inc_in_ctor_dec_in_dtor': 'CounterGuard: ++value in the constructor, --value in the destructor',
    'oql_single_splice_sorts_after_splicing': 'OrderedQueueList::splice(pos, other, it) calls doSort()/sort after std::list::splice',
    'oql_single_splice_is_last_step': 'in that function nothing that can run user code follows std::list::splice',
    'sr_add_attaches_before_recording': 'ScopedRemover adders (all six): the add call precedes itemList.push_back',
    'sr_add_failed_record_detaches_and_rethrows': 'all six: push_back is inside try { } catch(...) { remove the listener; throw; }',
    'counter_remover_builds_data_before_add': 'CounterRemover adders: make_shared<Data> precedes the add; only the handle store follows',
    'conditional_remover_builds_data_before_add': 'same for ConditionalRemover',
    'hcl_copy_assign_copy_then_swap': 'HeterCallbackListBase::operator=(const&): copy construct, then swap',
}


def leaf_exn(out):
    cl = Classes()
    f = {}
    cl_facts(cl, f)
    disp_facts(cl, f)
    queue_facts(cl, f)
    oql_facts(cl, f)
    sr_facts(cl, f)
    auto_facts(cl, f)
    hcl_facts(cl, f)
    missing = [k for k in DOC if k not in f]
    if missing:
        raise Untranslatable('facts not produced: %s' % missing)
    lines = ['(* GENERATED by tools/leafgen.py (tools/leaves/exn.py) from callbacklist.h, eventdispatcher.h, eventqueue.h,',
             '   internal/eventqueue_i.h, hetercallbacklist.h, utilities/{scopedremover,counterremover,conditionalremover,orderedqueuelist}.h',
             '   — structural facts the C09 fault profiles are built from; do not edit *)', '']
    for k in DOC:
        lines.append('(* %s *)' % DOC[k])
        lines.append('Definition %s : bool := %s.' % (k, 'true' if f[k] else 'false'))
    out['GenExn.v'] = '\n'.join(lines) + '\n'


LEAVES = [('exn', leaf_exn)]
