"""thread-level facts about eventqueue.h / hetereventqueue.h -> coq/gen/GenQConc.v

~DisableQueueNotify(): is the decrement of queueNotifyCounter performed inside the scope of a
lock_guard / unique_lock on queueListMutex (so that it cannot fall between a waiter's predicate
evaluation and its blocking)?"""
from leafcore import *  # noqa: F401,F403


def dtor_fact(trees, cls):
    for t in trees:
        for n in walk(t):
            if n.get('kind') == 'CXXDestructorDecl' and 'DisableQueueNotify' in n.get('name', ''):
                body = [c for c in kids(n) if c.get('kind') == 'CompoundStmt']
                if not body:
                    continue
                return analyse(body[0])
    raise Untranslatable('%s: ~DisableQueueNotify not found' % cls)


def is_decrement(n):
    if n.get('kind') == 'UnaryOperator' and n.get('opcode') == '--' and any(member_name(x) == 'queueNotifyCounter' for x in walk(n)):
        return True
    if n.get('kind') == 'CXXOperatorCallExpr' and any((strip(c).get('referencedDecl') or {}).get('name') == 'operator--' or c.get('name') == 'operator--' for c in kids(n)) \
            and any(member_name(x) == 'queueNotifyCounter' for x in walk(n)):
        return True
    return False


def is_qm_lock_decl(s):
    if s.get('kind') != 'DeclStmt':
        return False
    txt = [x.get('type', {}).get('qualType', '') for x in walk(s) if x.get('kind') == 'VarDecl']
    lockish = any(('lock_guard' in t or 'unique_lock' in t) for t in txt)
    return lockish and any(member_name(x) == 'queueListMutex' for x in walk(s))


def analyse(body):
    """(decrement found, decrement is preceded in its own compound statement — or an enclosing one — by a lock on queueListMutex,
       notify_one is NOT required to be inside)"""
    found = {'dec': False, 'locked': True}      # locked: EVERY decrement found is inside a lock scope

    def rec(comp, locked):
        lk = locked
        for s in kids(comp):
            if is_qm_lock_decl(s):
                lk = True
                continue
            if any(is_decrement(x) for x in walk(s)) and s.get('kind') != 'CompoundStmt' and not any(c.get('kind') == 'CompoundStmt' for c in walk(s) if c is not s):
                found['dec'] = True
                found['locked'] = found['locked'] and lk
            elif s.get('kind') == 'CompoundStmt':
                rec(s, lk)
            else:
                for c in walk(s):
                    if c.get('kind') == 'CompoundStmt' and c is not s:
                        rec(c, lk)
    rec(body, False)
    if not found['dec']:
        raise Untranslatable('~DisableQueueNotify: decrement of queueNotifyCounter not found')
    return found['locked']


def names_in(n):
    out = set()
    for x in walk(n):
        nm = member_name(x)
        if nm:
            out.add(nm)
        if x.get('kind') in ('UnresolvedMemberExpr', 'UnresolvedLookupExpr') and x.get('name'):
            out.add(x.get('name'))
    return out


def is_putback(s):
    """a statement that contains  queueList.splice(queueList.begin(), tempList)"""
    for x in walk(s):
        if x.get('kind') in ('CallExpr', 'CXXMemberCallExpr'):
            ks = kids(x)
            # the source of the splice is a LOCAL list (whatever its name), the target the member queueList
            if ks and member_name(ks[0]) == 'splice' and 'queueList' in names_in(ks[0]) and \
               any(y.get('kind') == 'DeclRefExpr' and (y.get('referencedDecl') or {}).get('kind') == 'VarDecl' and
                   'list' in (y.get('type') or {}).get('qualType', '').lower()
                   for a in ks[1:] for y in walk(a)):
                return True
    return False


def is_notify_if(s):
    """if(doCanProcess()) { queueListConditionVariable.notify_one(); }   (no else)"""
    if s.get('kind') != 'IfStmt':
        return False
    ks = kids(s)
    if len(ks) != 2:
        return False
    cond, then = ks
    c = strip(cond)
    if c.get('kind') not in ('CallExpr', 'CXXMemberCallExpr') or 'doCanProcess' not in names_in(c) or len(kids(c)) != 1:
        return False
    body = kids(then) if then.get('kind') == 'CompoundStmt' else [then]
    body = [b for b in body if b.get('kind') != 'NullStmt']
    if len(body) != 1:
        return False
    nm = names_in(body[0])
    return 'notify_one' in nm and 'queueListConditionVariable' in nm


def putback_fact(trees, cls, fn):
    """in `fn`: every block that puts tempList back at the front of queueList under the mutex is followed, after the
    lock scope is closed, by `if(doCanProcess()) notify_one()`.  True / False; anything else is not translatable."""
    from leaves.locks import class_functions
    bodies = [b for nm, _, b, _ in class_functions(trees, cls) if nm == fn]
    if not bodies:
        raise Untranslatable('%s::%s not found' % (cls, fn))
    verdicts = []
    for body in bodies:
        for comp in find_all(body, 'CompoundStmt'):
            st = [s for s in kids(comp) if s.get('kind') != 'NullStmt']
            for i, s in enumerate(st):
                # the innermost compound that holds the lock and the splice
                if s.get('kind') == 'CompoundStmt' and is_putback(s) and any(is_qm_lock_decl(d) for d in kids(s)) \
                        and not any(is_putback(c) for c in kids(s) if c.get('kind') == 'CompoundStmt'):
                    rest = st[i + 1:]
                    if not rest:
                        verdicts.append(False)
                    elif len(rest) == 1 and is_notify_if(rest[0]):
                        verdicts.append(True)
                    else:
                        raise Untranslatable('%s::%s: statements after the put-back block are not the reviewed shape' % (cls, fn))
    if not verdicts:
        raise Untranslatable('%s::%s: no put-back block  { lock_guard(queueListMutex); queueList.splice(queueList.begin(), tempList); }' % (cls, fn))
    if len(set(verdicts)) != 1:
        raise Untranslatable('%s::%s: put-back blocks differ' % (cls, fn))
    return verdicts[0]


def leaf_queueconc(out):
    tu = '#include "eventpp/eventqueue.h"\n'
    trees = clang_ast(tu, 'EventQueueBase')
    a = dtor_fact(trees, 'EventQueueBase')
    pi = putback_fact(trees, 'EventQueueBase', 'processIf')
    pu = putback_fact(trees, 'EventQueueBase', 'processUntil')
    ph = putback_fact(clang_ast('#include "eventpp/hetereventqueue.h"\n', 'HeterEventQueueBase'), 'HeterEventQueueBase', 'doProcessIf')
    out['GenQConc.v'] = '''(* GENERATED by tools/leafgen.py from eventqueue.h — do not edit *)
(* ~DisableQueueNotify(): `--queueNotifyCounter` happens while queueListMutex is held
   (HeterEventQueue has no DisableQueueNotify) *)
Definition dqn_dtor_decrement_under_mutex : bool := %s.
(* processIf / processUntil / HeterEventQueue::doProcessIf: the block that puts the events the predicate refused back
   at the front of queueList is followed by  if(doCanProcess()) queueListConditionVariable.notify_one();  *)
Definition processif_putback_notifies : bool := %s.
Definition processuntil_putback_notifies : bool := %s.
Definition heter_processif_putback_notifies : bool := %s.
''' % tuple(str(x).lower() for x in (a, pi, pu, ph))


LEAVES = [('queueconc', leaf_queueconc)]
