"""call shapes of dispatch / enqueue / getEvent -> coq/gen/GenDisp.v

For every call site that both READS its parameters (GetEvent::getEvent(args...)) and FORWARDS
them (std::forward<Args>(args)...), tie A reports how the two are sequenced:
  statement   the key is obtained in its own earlier statement          (sequenced)
  braced      both are elements of one braced-init-list                  (left to right)
  call        both are arguments of one parenthesised call / constructor (indeterminately sequenced)
and whether DefaultGetEvent::getEvent returns its forwarding-reference parameter by a plain
`return e;` (an implicit move under P1825 for rvalue arguments)."""
import json

from leafcore import *  # noqa: F401,F403


def functions(trees, name, within=None):
    """all definitions of `name` (deduplicated by source position; template instantiations repeat them)"""
    out, seen = [], set()

    def rec(n, inside):
        if within is not None and n.get('name') == within and n.get('kind', '').startswith('ClassTemplate'):
            inside = True
        if n.get('kind') in ('CXXMethodDecl', 'FunctionDecl') and n.get('name') == name and (within is None or inside):
            body = [c for c in kids(n) if c.get('kind') == 'CompoundStmt']
            pos = json.dumps(n.get('range', {}).get('begin', {}), sort_keys=True)
            if body and pos not in seen:
                seen.add(pos)
                out.append((n, body[0]))
        for c in kids(n):
            rec(c, inside)
    for t in trees:
        rec(t, False)
    return out


def mentions(n, name):
    return any(member_name(x) == name or x.get('name') == name or x.get('member') == name for x in walk(n))


def is_getevent_call(n):
    return n.get('kind') in ('CallExpr', 'CXXMemberCallExpr') and kids(n) and member_name(kids(n)[0]) == 'getEvent'


def is_forward_call(n):
    if n.get('kind') != 'CallExpr' or not kids(n):
        return False
    c = strip(kids(n)[0])
    return (c.get('name') == 'forward') or member_name(c) == 'forward'


def key_shape(body, callee=None):
    """smallest construct that contains both the getEvent call and a std::forward of the
    parameters that is not itself an argument of getEvent"""
    found = {}

    def rec(n, in_g):
        """returns (has_getevent, has_forward_outside_getevent)"""
        g = is_getevent_call(n)
        f = (not in_g) and (not g) and is_forward_call(n)
        hg, hf = g, f
        child_flags = []
        for c in kids(n):
            cg, cf = rec(c, in_g or g)
            child_flags.append((cg, cf))
            hg = hg or cg
            hf = hf or cf
        if hg and hf and 'lca' not in found:
            # deepest node first (post-order): both present below this node but in no single child
            if not any(cg and cf for cg, cf in child_flags):
                found['lca'] = n
        return hg, hf
    hg, hf = rec(body, False)
    if not hg:
        raise Untranslatable('no getEvent call')
    if not hf:
        return 'statement'
    lca = found.get('lca')
    k = lca.get('kind')
    if k == 'CompoundStmt':
        # different statements: the key must be declared before the forwarding statement
        stmts = kids(lca)
        gi = [i for i, st in enumerate(stmts) if any(is_getevent_call(x) for x in walk(st))]
        fi = [i for i, st in enumerate(stmts) if any(is_forward_call(x) for x in walk(st)) and not any(is_getevent_call(x) for x in walk(st))]
        if gi and fi and max(gi) < min(fi):
            return 'statement'
        raise Untranslatable('key obtained after the arguments are forwarded')
    if k == 'InitListExpr':
        return 'braced'
    if k in ('CallExpr', 'CXXMemberCallExpr', 'CXXUnresolvedConstructExpr', 'CXXConstructExpr', 'CXXTemporaryObjectExpr', 'ParenListExpr'):
        if k == 'CXXUnresolvedConstructExpr' and lca.get('list'):
            return 'braced'
        return 'call'
    raise Untranslatable('unexpected construct %s around key and forwarded arguments' % k)


def key_copied(body):
    """is the key held in an object of its own?  For a key obtained in its own declaration
    statement: the declared type is not a reference (a `const auto &` / `Event &&` would alias
    whatever a reference-returning getEvent policy hands back — possibly a parameter that is
    moved away afterwards).  In the other shapes the key initialises a member / parameter directly."""
    for st in walk(body):
        if st.get('kind') != 'DeclStmt':
            continue
        for v in kids(st):
            if v.get('kind') == 'VarDecl' and any(is_getevent_call(x) for x in walk(v)):
                q = v.get('type', {}).get('qualType', '')
                return '&' not in q
    return True


def getevent_forwards_pack(body):
    """does some getEvent call receive the parameter pack as std::forward<Args>(args)... (rvalues for by-value
    parameters: a getEvent policy taking them by value moves them away before they are forwarded to the listeners)?
    Forwarding the separate leading parameter `first` (which is not passed on) is fine."""
    for n in walk(body):
        if is_getevent_call(n):
            for a in kids(n)[1:]:
                for x in walk(a):
                    if is_forward_call(x) and any((member_name(y) or y.get('name')) == 'args' for y in walk(x)):
                        return True
    return False


def leaf_dispatch(out):
    tu = ('#include "eventpp/eventqueue.h"\n#include "eventpp/hetereventqueue.h"\n'
          'template class eventpp::EventQueue<int, void(int)>;\n')
    trees = clang_ast(tu, 'EventDispatcherBase')
    ds = functions(trees, 'dispatch', within='EventDispatcherBase')
    if len(ds) != 2:
        raise Untranslatable('expected two dispatch overloads in EventDispatcherBase, found %d' % len(ds))
    d_shapes = [key_shape(b, 'directDispatch') for _, b in ds]
    d_copied = [key_copied(b) for _, b in ds]
    d_fwd = [getevent_forwards_pack(b) for _, b in ds]
    trees = clang_ast(tu, 'EventQueueBase')
    es = [f for f in functions(trees, 'enqueue', within='EventQueueBase')]
    if len(es) != 2:
        raise Untranslatable('expected two enqueue overloads in EventQueueBase, found %d' % len(es))
    e_shapes = [key_shape(b, 'doEnqueue') for _, b in es]
    e_fwd = [getevent_forwards_pack(b) for _, b in es]
    trees = clang_ast(tu, 'HeterEventQueueBase')
    hs = functions(trees, 'doEnqueue', within='HeterEventQueueBase')
    if len(hs) != 2:
        raise Untranslatable('expected two doEnqueue overloads in HeterEventQueueBase, found %d' % len(hs))
    h_shapes = [key_shape(b, 'doEnqueueItem') for _, b in hs]
    h_copied = [key_copied(b) for _, b in hs]
    trees = clang_ast(tu, 'HeterEventDispatcherBase')
    hd = functions(trees, 'doDispatch', within='HeterEventDispatcherBase')
    if len(hd) != 2:
        raise Untranslatable('expected two doDispatch overloads in HeterEventDispatcherBase, found %d' % len(hd))
    hd_shapes = []
    hd_copied = [key_copied(b) for _, b in hd]
    for _, b in hd:
        stmts = kids(b)
        keydecl = [i for i, s in enumerate(stmts) if s.get('kind') == 'DeclStmt' and mentions(s, 'getEvent')]
        # the statements that forward the arguments on (to the list found, whatever the local is called): every statement
        # other than the key's own declaration that mentions std::forward
        fwd = [i for i, s in enumerate(stmts) if mentions(s, 'forward') and i not in keydecl]
        if len(keydecl) == 1 and fwd and keydecl[0] < min(fwd):
            hd_shapes.append('statement')
        else:
            raise Untranslatable('heter doDispatch: unexpected shape')
    # DefaultGetEvent::getEvent
    trees = clang_ast(tu, 'DefaultGetEvent')
    fn, body = find_function(trees, 'getEvent')
    rets = [s for s in kids(body) if s.get('kind') == 'ReturnStmt']
    if len(rets) != 1 or len(kids(body)) != 1:
        raise Untranslatable('DefaultGetEvent::getEvent: expected a single return statement')
    params = [p.get('name') for p in kids(fn) if p.get('kind') == 'ParmVarDecl']
    ptypes = [p.get('type', {}).get('qualType', '') for p in kids(fn) if p.get('kind') == 'ParmVarDecl']
    e = kids(rets[0])[0]
    while e.get('kind') in ('ExprWithCleanups', 'ImplicitCastExpr', 'ParenExpr') and len(kids(e)) == 1:
        e = kids(e)[0]
    plain = e.get('kind') == 'DeclRefExpr' and member_name(e) == params[0]
    forwarding = ptypes[0].strip().endswith('&&')
    returns_param = 'true' if (plain and forwarding) else 'false'

    def b(shape):
        return {'statement': 'Statement', 'braced': 'Braced', 'call': 'Call'}[shape]
    out['GenDisp.v'] = '''(* GENERATED by tools/leafgen.py from eventdispatcher.h, eventqueue.h, hetereventdispatcher.h,
   hetereventqueue.h, internal/eventpolicies_i.h — do not edit *)
Inductive sequencing := Statement | Braced | Call.

(* EventDispatcherBase::dispatch(Args...) and dispatch(T &&, Args...): key vs forwarded arguments *)
Definition dispatch_shape : sequencing := %s.
Definition dispatch_first_shape : sequencing := %s.
(* EventQueueBase::enqueue (two overloads) *)
Definition enqueue_shape : sequencing := %s.
Definition enqueue_first_shape : sequencing := %s.
(* HeterEventQueueBase::doEnqueue (include-event, exclude-event) *)
Definition heter_enqueue_incl_shape : sequencing := %s.
Definition heter_enqueue_excl_shape : sequencing := %s.
(* HeterEventDispatcherBase::doDispatch (both) *)
Definition heter_dispatch_incl_shape : sequencing := %s.
Definition heter_dispatch_excl_shape : sequencing := %s.
(* DefaultGetEvent::getEvent(U && e, ...) { return e; } : a plain return of the forwarding-reference parameter *)
Definition getevent_returns_param_plainly : bool := %s.
(* the key lives in an object of its own (declared by value), not in a reference to what getEvent returned *)
Definition dispatch_key_copied : bool := %s.
Definition dispatch_first_key_copied : bool := %s.
Definition heter_enqueue_incl_key_copied : bool := %s.
Definition heter_enqueue_excl_key_copied : bool := %s.
Definition heter_dispatch_incl_key_copied : bool := %s.
Definition heter_dispatch_excl_key_copied : bool := %s.
(* getEvent is handed the parameter pack as rvalues (std::forward<Args>(args)...) although the pack is forwarded to the listeners afterwards *)
Definition dispatch_getevent_forwards_args : bool := %s.
Definition dispatch_first_getevent_forwards_args : bool := %s.
Definition enqueue_getevent_forwards_args : bool := %s.
Definition enqueue_first_getevent_forwards_args : bool := %s.
''' % ((b(d_shapes[0]), b(d_shapes[1]), b(e_shapes[0]), b(e_shapes[1]), b(h_shapes[0]), b(h_shapes[1]),
        b(hd_shapes[0]), b(hd_shapes[1]), returns_param)
       + tuple('true' if x else 'false' for x in d_copied + h_copied + hd_copied + d_fwd + e_fwd))
    out['GenDisp.v'] += index_sequence_leaf()


def index_sequence_leaf():
    """internal_::MakeIndexSequence, which expands the stored argument tuple of a queued event: recognised when it is the
    linear recursion  MakeIndexSequence<N, I...> : MakeIndexSequence<N - 1, N - 1, I...>  with  MakeIndexSequence<0, I...>::Type =
    IndexSequence<I...>  (coq/IndexSeq.v proves that this yields 0 .. N-1 for every N); anything else is refused"""
    trees = clang_ast('#include "eventpp/eventqueue.h"\n', 'MakeIndexSequence')
    primary_ok = base_ok = False
    for t in trees:
        for n in walk(t):
            if n.get('kind') == 'ClassTemplateDecl' and n.get('name') == 'MakeIndexSequence':
                recs = [c for c in kids(n) if c.get('kind') == 'CXXRecordDecl']
                tps = [c.get('name') for c in kids(n) if c.get('kind') in ('NonTypeTemplateParmDecl',)]
                if len(recs) >= 1 and len(tps) == 2:
                    bases = recs[0].get('bases') or []
                    if len(bases) == 1:
                        txt = (bases[0].get('type') or {}).get('qualType', '').replace(' ', '')
                        N, I = tps
                        if txt == 'MakeIndexSequence<%s-1,%s-1,%s...>' % (N, N, I):
                            # nothing else in the primary template that could define Type differently
                            if not any(c.get('kind') in ('TypeAliasDecl', 'TypedefDecl') for c in kids(recs[0])):
                                primary_ok = True
            if n.get('kind') == 'ClassTemplatePartialSpecializationDecl' and n.get('name') == 'MakeIndexSequence':
                targs = [c for c in kids(n) if c.get('kind') == 'TemplateArgument']
                tps = [c.get('name') for c in kids(n) if c.get('kind') == 'NonTypeTemplateParmDecl']
                aliases = [c for c in kids(n) if c.get('kind') in ('TypeAliasDecl', 'TypedefDecl') and c.get('name') == 'Type']
                zero = bool(targs) and any(str(x.get('value')) == '0' for x in walk(targs[0]))
                if len(tps) == 1 and len(aliases) == 1 and zero and not (n.get('bases') or []):
                    if (aliases[0].get('type') or {}).get('qualType', '').replace(' ', '') == 'IndexSequence<%s...>' % tps[0]:
                        base_ok = True
    if not (primary_ok and base_ok):
        raise Untranslatable('MakeIndexSequence is not the linear recursion <N, I...> : <N - 1, N - 1, I...> with <0, I...>::Type = IndexSequence<I...>')
    return '''
(* internal_::MakeIndexSequence (expansion of a queued event's argument tuple) is the linear recursion
   MakeIndexSequence<N, I...> : MakeIndexSequence<N - 1, N - 1, I...>,  MakeIndexSequence<0, I...>::Type = IndexSequence<I...> *)
Definition index_sequence_linear : bool := true.
'''


LEAVES = [('dispatch', leaf_dispatch)]
