"""constructor facts -> coq/gen/GenCtor.v

For the queue classes: which of the two atomic counters (queueEmptyCounter, queueNotifyCounter)
each constructor names in its mem-initialiser list.  std::atomic<int> (before C++20) and
SingleThreading::Atomic<int> have a trivial default constructor: a counter that is not named is
left with whatever the storage held.  Also the noexcept flags of the heterogeneous callback
list's assignment operators (C09)."""
from leafcore import *  # noqa: F401,F403


def ctor_inits(trees, cls):
    """{'default'|'copy'|'move': set(member names initialised)} for class template cls"""
    out = {}
    for t in trees:
        for n in walk(t):
            if n.get('kind') == 'CXXConstructorDecl' and n.get('name', '').startswith(cls):
                q = n.get('type', {}).get('qualType', '')
                m = q[q.find('('):]
                if m.startswith('()'):
                    kind = 'default'
                elif '&&' in m:
                    kind = 'move'
                elif 'const ' + cls in m:
                    kind = 'copy'
                else:
                    continue
                inits = [c for c in n.get('inner', []) if isinstance(c, dict) and c.get('kind') == 'CXXCtorInitializer']
                names = set((i.get('anyInit') or {}).get('name') for i in inits if i.get('anyInit'))
                delegating = any(i.get('delegatingInit') for i in inits)
                # how each counter is initialised: 'zero' (literal 0), 'source' (from the other object's counter)
                how = {}
                for i in inits:
                    nm = (i.get('anyInit') or {}).get('name')
                    if nm not in ('queueEmptyCounter', 'queueNotifyCounter'):
                        continue
                    sub = [x for c in i.get('inner', []) for x in walk(c)]
                    lits = [x for x in sub if x.get('kind') == 'IntegerLiteral']
                    refs = [x for x in sub if x.get('kind') in ('MemberExpr', 'CXXDependentScopeMemberExpr', 'DeclRefExpr')]
                    if len(lits) == 1 and str(lits[0].get('value')) == '0' and not refs:
                        how[nm] = 'zero'
                    elif not sub:
                        how[nm] = 'zero'          # value-initialisation: counter()
                    elif any(member_name(x) == nm or x.get('name') == nm for x in refs) and not lits:
                        how[nm] = 'source'
                    else:
                        raise Untranslatable('%s %s constructor: initialiser of %s is neither the literal 0 nor the source\'s counter' % (cls, kind, nm))
                if kind not in out:
                    out[kind] = (names, delegating, how)
    for k in ('default', 'copy', 'move'):
        if k not in out:
            raise Untranslatable('%s: %s constructor not found' % (cls, k))
    return out


def _copy_assign(trees, cls):
    for t in trees:
        for n in walk(t):
            if n.get('kind') == 'CXXMethodDecl' and n.get('name') == 'operator=':
                q = n.get('type', {}).get('qualType', '')
                if '&&' in q or 'const ' + cls not in q:
                    continue
                body = [c for c in kids(n) if c.get('kind') == 'CompoundStmt']
                if body:
                    return body[0]
    raise Untranslatable('%s: copy assignment operator not found' % cls)


def _is_return_this(s):
    if s.get('kind') != 'ReturnStmt':
        return False
    ks = kids(s)
    if len(ks) != 1:
        return False
    e = strip(ks[0])
    return e.get('kind') == 'UnaryOperator' and e.get('opcode') == '*' and strip(kids(e)[0]).get('kind') == 'CXXThisExpr'


def _is_other(e):
    e = strip(e)
    return e.get('kind') == 'DeclRefExpr' and (e.get('referencedDecl') or {}).get('kind') == 'ParmVarDecl'


def _self_test(cond):
    """`this != &other` (either order)"""
    c = strip(cond)
    if c.get('kind') != 'BinaryOperator' or c.get('opcode') != '!=':
        return False
    a, b = [strip(x) for x in kids(c)]

    def addr_other(x):
        return x.get('kind') == 'UnaryOperator' and x.get('opcode') == '&' and _is_other(kids(x)[0])
    return (a.get('kind') == 'CXXThisExpr' and addr_other(b)) or (b.get('kind') == 'CXXThisExpr' and addr_other(a))


def _memberwise(s):
    """`member = other.member` for one and the same member"""
    e = strip(s)
    if e.get('kind') not in ('BinaryOperator', 'CXXOperatorCallExpr'):
        return False
    ks = kids(e)
    if e.get('kind') == 'CXXOperatorCallExpr':
        ks = ks[1:]
    elif e.get('opcode') != '=':
        return False
    if len(ks) != 2:
        return False
    l, r = strip(ks[0]), strip(ks[1])
    if l.get('kind') != 'MemberExpr' or strip(kids(l)[0]).get('kind') != 'CXXThisExpr':
        return False
    if r.get('kind') not in ('MemberExpr', 'CXXDependentScopeMemberExpr') or not _is_other(kids(r)[0]):
        return False
    return member_name(l) is not None and member_name(l) == member_name(r)


def copy_assign_self_safe(trees, cls):
    """does `x = x` leave x's listener nodes alone?  true: the body assigns members from the same members of the source
    (a standard container assigned from itself keeps its elements) or does everything under `if(this != &other)`;
    false: it constructs a copy of the source and swaps with it without such a test; anything else is refused"""
    body = _copy_assign(trees, cls)
    stmts = [x for x in kids(body) if x.get('kind') != 'NullStmt']
    if not stmts or not _is_return_this(stmts[-1]):
        raise Untranslatable('%s::operator=(const&): does not end with return *this' % cls)
    work = stmts[:-1]
    if len(work) == 1 and work[0].get('kind') == 'IfStmt' and len(kids(work[0])) == 2 and _self_test(kids(work[0])[0]):
        return True
    if work and all(_memberwise(x) for x in work):
        return True
    decls = [v for x in work if x.get('kind') == 'DeclStmt' for v in kids(x) if v.get('kind') == 'VarDecl']
    copies = [v for v in decls if any(_is_other(y) for y in walk(v))]
    swaps = [x for x in work for y in walk(x) if y.get('kind') in ('CallExpr', 'CXXMemberCallExpr')
             and ((call_name(y) or '') == 'swap' or any(z.get('name') == 'swap' or z.get('member') == 'swap' for z in walk(kids(y)[0])))]
    if copies and swaps and len(work) == 2:
        return False
    raise Untranslatable('%s::operator=(const&): neither member-wise assignment, nor a self test, nor copy-and-swap' % cls)


def queue_assign_forwards(trees, cls):
    """the queue's copy assignment is `super::operator=(other); return *this;` and nothing else"""
    body = _copy_assign(trees, cls)
    stmts = [x for x in kids(body) if x.get('kind') != 'NullStmt']
    if len(stmts) != 2 or not _is_return_this(stmts[1]):
        raise Untranslatable('%s::operator=(const&): not a forwarding assignment' % cls)
    c = strip(stmts[0])
    ks = kids(c)
    if c.get('kind') not in ('CallExpr', 'CXXMemberCallExpr', 'CXXOperatorCallExpr') or len(ks) != 2 or not _is_other(ks[1]):
        raise Untranslatable('%s::operator=(const&): not a forwarding assignment' % cls)
    callee = strip(ks[0])
    if (callee.get('member') or callee.get('name') or '') != 'operator=':
        raise Untranslatable('%s::operator=(const&): forwards to something that is not the base class assignment' % cls)


def leaf_ctors(out):
    tu = '#include "eventpp/eventqueue.h"\n#include "eventpp/hetereventqueue.h"\n'
    facts = {}
    for cls, pre in (('EventQueueBase', 'eq'), ('HeterEventQueueBase', 'heq')):
        trees = clang_ast(tu, cls)
        c = ctor_inits(trees, cls)
        for kind in ('default', 'copy', 'move'):
            names, delegating, how = c[kind]
            both = ('queueEmptyCounter' in names and 'queueNotifyCounter' in names)
            if delegating:
                both = ('queueEmptyCounter' in c['default'][0] and 'queueNotifyCounter' in c['default'][0])
                how = c['default'][2]
            facts['%s_%s_inits_counters' % (pre, kind)] = both
            # an initialised counter starts at 0, or is taken over from the source object
            facts['%s_%s_counters_from_source' % (pre, kind)] = both and any(v == 'source' for v in how.values())
        queue_assign_forwards(trees, cls)
    # copy assignment from itself: the dispatcher bases the queues forward to
    for cls, pre in (('EventDispatcherBase', 'eq'), ('HeterEventDispatcherBase', 'heq')):
        facts['%s_copy_assign_self_safe' % pre] = copy_assign_self_safe(clang_ast(tu, cls), cls)
    # noexcept of HeterCallbackListBase assignment operators
    trees = clang_ast('#include "eventpp/hetercallbacklist.h"\n', 'HeterCallbackListBase')
    ne = {}
    for t in trees:
        for n in walk(t):
            if n.get('kind') == 'CXXMethodDecl' and n.get('name') == 'operator=':
                q = n.get('type', {}).get('qualType', '')
                kind = 'move' if '&&' in q else 'copy'
                ne.setdefault(kind, 'noexcept' in q)
    if set(ne) != {'copy', 'move'}:
        raise Untranslatable('HeterCallbackListBase assignment operators not found')
    lines = ['(* GENERATED by tools/leafgen.py from eventqueue.h, hetereventqueue.h, hetercallbacklist.h — do not edit *)', '']
    for k in sorted(facts):
        lines.append('Definition %s : bool := %s.' % (k, 'true' if facts[k] else 'false'))
    lines.append('')
    lines.append('(* HeterCallbackListBase::operator=(const &) copies callbacks (user code that may throw): must not be noexcept *)')
    lines.append('Definition hcl_copy_assign_noexcept : bool := %s.' % ('true' if ne['copy'] else 'false'))
    lines.append('Definition hcl_move_assign_noexcept : bool := %s.' % ('true' if ne['move'] else 'false'))
    out['GenCtor.v'] = '\n'.join(lines) + '\n'


LEAVES = [('ctors', leaf_ctors)]
