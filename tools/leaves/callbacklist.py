"""leaves of include/eventpp/callbacklist.h -> coq/gen/GenCL.v"""
import re
from leafcore import *  # noqa: F401,F403

# ----------------------------------------------------------------------------------------
# leaves

def leaf_cl(out):
    """callbacklist.h : the visit condition of doForEachIf, the wrap branch of getNextCounter,
    the removed-marker guards of remove / insert / ownsHandle"""
    tu = '#include "eventpp/callbacklist.h"\ntemplate class eventpp::CallbackList<void(int)>;\n'
    trees = clang_ast(tu, 'CallbackListBase')

    # --- visit condition: the `if` inside the while loop of doForEachIf
    fn, body = find_function(trees, 'doForEachIf')
    whiles = find_all(body, 'WhileStmt')
    if len(whiles) != 1:
        raise Untranslatable('doForEachIf: expected one while loop')
    wbody = kids(whiles[0])[-1]
    ifs = [s for s in kids(wbody) if s.get('kind') == 'IfStmt']
    if len(ifs) != 1:
        raise Untranslatable('doForEachIf: expected one if in the loop body')
    cond = kids(ifs[0])[0]
    # the skeleton of the traversal: `while(node)`, one guarded visit `if(cond) { if(! f(node)) return false; }`,
    # no other way out of the loop (break / continue / goto / further returns)
    wcond = strip(kids(whiles[0])[0])
    while wcond.get('kind') in ('ImplicitCastExpr', 'CXXMemberCallExpr', 'MemberExpr', 'ExprWithCleanups', 'CXXOperatorCallExpr') and len(kids(wcond)) == 1:
        wcond = strip(kids(wcond)[0])
    # local names are read off the declarations, not assumed: the cursor is the local initialised from `head`, the
    # captured generation the local initialised from `currentCounter`
    def local_from(body_, member):
        for v in find_all(body_, 'VarDecl'):
            if any(member_name(x) == member for x in walk(v)):
                return v.get('name')
        for a in walk(body_):
            if (a.get('kind') == 'BinaryOperator' and a.get('opcode') == '=') or \
               (a.get('kind') == 'CXXOperatorCallExpr' and len(kids(a)) == 3 and
                    (strip(kids(a)[0]).get('referencedDecl') or {}).get('name') == 'operator='):
                lhs, rhs = kids(a)[-2], kids(a)[-1]
                if strip(lhs).get('kind') == 'DeclRefExpr' and member_name(strip(rhs)) == member:
                    return member_name(lhs)
        return None
    cursor = local_from(body, 'head')
    captured_name = local_from(body, 'currentCounter')
    if cursor is None or captured_name is None:
        raise Untranslatable('doForEachIf: no local initialised from head / from currentCounter')
    if not (wcond.get('kind') == 'DeclRefExpr' and member_name(wcond) == cursor):
        raise Untranslatable('doForEachIf: the loop condition is not just the cursor `%s`' % cursor)
    if any(x.get('kind') in ('BreakStmt', 'ContinueStmt', 'GotoStmt') for x in walk(wbody)):
        raise Untranslatable('doForEachIf: break/continue/goto inside the traversal loop')
    rets = [x for x in walk(wbody) if x.get('kind') == 'ReturnStmt']
    if len(rets) != 1 or not any(x is rets[0] for x in walk(ifs[0])):
        raise Untranslatable('doForEachIf: expected exactly one return (inside the guarded visit) in the loop')
    if len(kids(ifs[0])) != 2:
        raise Untranslatable('doForEachIf: the guarded visit has an else branch')
    inner_ifs = [x for x in walk(kids(ifs[0])[1]) if x.get('kind') == 'IfStmt']
    if len(inner_ifs) != 1:
        raise Untranslatable('doForEachIf: the guarded visit is not a single `if(! f(node)) return false;`')

    def atom(n):
        nm = member_name(n)
        if n.get('kind') in ('MemberExpr', 'CXXDependentScopeMemberExpr') and nm == 'counter':
            return 'node_ctr'
        if n.get('kind') == 'DeclRefExpr' and nm == captured_name:
            return 'captured'
        if n.get('kind') == 'DeclRefExpr' and nm == 'removedCounter':
            return 'removed_marker'
        return None
    visit = Tr(atom).expr(cond)
    # position of the step `node = node->next` relative to the visit: must be after the if
    stmts = kids(wbody)
    idx_if = stmts.index(ifs[0])
    step_after = any(('next' == (member_name(x) or '')) for s in stmts[idx_if + 1:] for x in walk(s))
    step_before = any(('next' == (member_name(x) or '')) for s in stmts[:idx_if] for x in walk(s))
    if not step_after or step_before:
        raise Untranslatable('doForEachIf: the step node=node->next is not after the visit')

    # removed marker value
    removed_val = None
    for t in trees:
        for n in walk(t):
            if n.get('kind') == 'EnumConstantDecl' and n.get('name') == 'removedCounter':
                lits = find_all(n, 'IntegerLiteral')
                if lits:
                    removed_val = lits[0].get('value')
    if removed_val is None:
        raise Untranslatable('removedCounter value not found')

    # --- wrap branch of getNextCounter: `if(result == K)`, nodes rewritten to V
    fn, body = find_function(trees, 'getNextCounter')
    ifs = [s for s in kids(body) if s.get('kind') == 'IfStmt']
    if len(ifs) != 1:
        raise Untranslatable('getNextCounter: expected one if')

    drawn = None
    for v in find_all(body, 'VarDecl'):
        if any(member_name(x) == 'currentCounter' for x in walk(v)):
            drawn = v.get('name')
            break
    if drawn is None:
        raise Untranslatable('getNextCounter: no local initialised from currentCounter')

    def atom2(n):
        if n.get('kind') == 'DeclRefExpr' and member_name(n) == drawn:
            return 'result'
        return None
    wrap_test = Tr(atom2).expr(kids(ifs[0])[0])
    then = kids(ifs[0])[1]
    # the same function written with an early return: `if(NOT-WRAPPED) return result;  <wrap branch>  return result;`
    tb = then
    while tb.get('kind') == 'CompoundStmt' and len(kids(tb)) == 1:
        tb = kids(tb)[0]
    if tb.get('kind') == 'ReturnStmt' and len(kids(ifs[0])) == 2 and kids(tb) and member_name(strip(kids(tb)[0])) == drawn:
        stmts_all = kids(body)
        rest = stmts_all[stmts_all.index(ifs[0]) + 1:]
        if not rest or rest[-1].get('kind') != 'ReturnStmt':
            raise Untranslatable('getNextCounter: early return without a final return')
        then = {'kind': 'CompoundStmt', 'inner': rest[:-1]}
        wrap_test = wrap_test[6:-1] if wrap_test.startswith('(negb ') and wrap_test.endswith(')') else '(negb %s)' % wrap_test
    assigns = [x for x in walk(then) if x.get('kind') == 'BinaryOperator' and x.get('opcode') == '='
               and member_name(kids(x)[0]) == 'counter']
    if len(assigns) != 1:
        raise Untranslatable('getNextCounter: expected one counter rewrite in the wrap branch')
    rv = strip(kids(assigns[0])[1])
    if rv.get('kind') != 'IntegerLiteral':
        raise Untranslatable('getNextCounter: rewrite value is not a literal')
    rewrite_val = rv.get('value')
    # second draw inside the branch
    incs = [x for x in walk(then) if x.get('kind') in ('UnaryOperator', 'CXXOperatorCallExpr')
            and (x.get('opcode') == '++' or any((strip(c).get('referencedDecl', {}) or {}).get('name') == 'operator++' for c in kids(x)))]
    second_draw = len(incs) >= 1
    # loop walks from head through next
    walks_next = any(member_name(x) == 'next' for x in walk(then)) and any(member_name(x) == 'head' for x in walk(then))
    if not walks_next:
        raise Untranslatable('getNextCounter: wrap loop does not walk head->next')

    # --- guards: is the unlink in remove / the positive answer of ownsHandle / doInsert in insert reached only when
    # `node->counter != removedCounter` held at the test?  Decided on path conditions (leafcore.reached_under), so that
    # `if(a && c != r) { act }`, `if(!a || c == r) return; act`, `if(c == r) other else act` all count alike.
    R = ('atom', 'node_is_removed')

    def classify(n):
        if n.get('kind') == 'BinaryOperator' and n.get('opcode') in ('==', '!='):
            names = set(member_name(x) for x in walk(n))
            if 'counter' in names and 'removedCounter' in names:
                return R if n.get('opcode') == '==' else ('not', R)
        return None

    def calls(x, callee):
        return (x.get('kind') in ('CXXMemberCallExpr', 'CallExpr') and any(
            member_name(c) == callee or (strip(c).get('kind') in ('UnresolvedMemberExpr', 'UnresolvedLookupExpr') and strip(c).get('name') == callee)
            for c in kids(x)[:1]))

    def guarded(fname, callee):
        fn, body = find_function(trees, fname)
        if callee is None:
            # every return that can hand out `true`
            def target(x):
                if x.get('kind') != 'ReturnStmt' or not kids(x):
                    return False
                v = strip(kids(x)[0])
                return not (v.get('kind') == 'CXXBoolLiteralExpr' and not v.get('value'))
        else:
            def target(x):
                return calls(x, callee)
        hits = reached_under(body, classify, target)
        if not hits:
            raise Untranslatable('%s: %s not found' % (fname, ('call of ' + callee) if callee else 'a return of a non-false value'))
        return all(implies(pc, ('not', R)) for _, pc in hits)
    g_remove = guarded('remove', 'doFreeNode')
    g_insert = guarded('insert', 'doInsert')
    g_owns = guarded('ownsHandle', None)

    out['GenCL.v'] = '''(* GENERATED by tools/leafgen.py from include/eventpp/callbacklist.h — do not edit *)
From Coq Require Import NArith Bool.
Local Open Scope N_scope.

(* enum : Counter { removedCounter = %s } *)
Definition removed_marker : N := %s.

(* doForEachIf: if(<this condition>) { visit }   — the step node = node->next follows the visit *)
Definition visit_cond (node_ctr captured : N) : bool := %s.

(* getNextCounter: if(<this test on result>) { every linked node's counter := rewrite_value; draw again } *)
Definition wrap_test (result : N) : bool := %s.
Definition wrap_rewrite_value : N := %s.
Definition wrap_second_draw : bool := %s.

(* is the action guarded by `node->counter != removedCounter` (under the mutex)? *)
Definition remove_checks_removed : bool := %s.
Definition insert_checks_removed : bool := %s.
Definition owns_checks_removed : bool := %s.
''' % (removed_val, removed_val, visit, wrap_test, rewrite_val, 'true' if second_draw else 'false',
       str(g_remove).lower(), str(g_insert).lower(), str(g_owns).lower())



LEAVES = [('callbacklist', leaf_cl)]
