#!/bin/bash
# benignrun.sh <patch.diff> <name> [check ids…]   (default: all twenty)
# Runs the quick checks against a BEHAVIOUR-PRESERVING change of /repo: fresh scratch worktree of /repo HEAD, patch applied
# there, unit suite there, every check with VERIF_REPO pointing at it (each check works in its own private build area, so
# several run at once).  A check that exits non-zero here is a false alarm in the sense of the brief's "harmless rewrite":
# the outcome is stored under /verif/benign/<name>/ so that the translator or model can be made more tolerant.
set -u
PATCH=$1; NAME=$2; shift 2
IDS=${*:-C01 C02 C03 C04 C05 C06 C07 C08 C09 C10 C11 C12 C13 C14 C15 C16 C17 C18 C19 C20}
OUT=/verif/benign/$NAME
mkdir -p "$OUT"
cp "$PATCH" "$OUT/patch.diff"
[ -f "${PATCH%.diff}.txt" ] && cp "${PATCH%.diff}.txt" "$OUT/description.txt"
WT=/tmp/benignrun_$$
rm -rf "$WT"; git -C /repo worktree add -q "$WT" HEAD || exit 2
trap 'git -C /repo worktree remove --force "$WT" 2>/dev/null' EXIT
if ! git -C "$WT" apply "$OUT/patch.diff"; then echo "BENIGN $NAME: patch does not apply"; exit 2; fi
SUITE=$(bash /verif/tools/run_baseline.sh "$WT" 2>&1 | grep -v "^[[:space:]]*$" | tail -1)
echo "BENIGN $NAME: suite: $SUITE"
run_one() {
  id=$1
  OUTF="$OUT/check_$id.log"
  ( cd /verif && VERIF_REPO="$WT" VERIF_EXP_TAG="$id" timeout 1800 python3 tools/check.py "$id" quick > "$OUTF" 2>&1 ); rc=$?
  V=$(grep -c "^VIOLATION" "$OUTF")
  echo "$id:rc=$rc,violations=$V"
}
export -f run_one; export OUT WT
RES=$(echo $IDS | tr ' ' '\n' | xargs -P ${BENIGN_JOBS:-5} -I{} bash -c 'run_one {}' | sort | tr '\n' ' ')
echo "BENIGN $NAME: $RES"
python3 - "$OUT" "$NAME" "$SUITE" "$RES" <<'EOF'
import json, sys, os
out, name, suite, res = sys.argv[1:5]
json.dump({'name': name, 'unit_suite_with_patch': suite, 'checks_run': res.split(),
           'alarms': [r for r in res.split() if 'rc=0,violations=0' not in r],
           'ran': 'tools/benignrun.sh: fresh scratch worktree of /repo HEAD; unit suite there; quick checks with VERIF_REPO pointing at the patched worktree; worktree removed'},
          open(os.path.join(out, 'meta.json'), 'w'), indent=1)
EOF
# the private build areas of this experiment are not kept
python3 - "$WT" $IDS <<'EOF2'
import hashlib, os, shutil, sys
wt = os.path.abspath(sys.argv[1])
for i in sys.argv[2:]:
    shutil.rmtree('/verif/build/exp_' + hashlib.sha256((wt + i).encode()).hexdigest()[:10], ignore_errors=True)
EOF2
