"""q_domain.py — case generator, serialiser, shrinker and correspondence loop for event-queue
programs (domain `q`: coq/QModel.v, harness/queue.cpp, ocaml/driver_q.ml).

case = dict(ordered=0..3, cbs={(c,n): [cmd]}, preds={(p,n): (verdict, [cmd])}, main=[cmd])

flavours:  fifo     C05: enqueue/process*/peek/take/clear mixed with listener changes, re-entrant
                    enqueue/process from listeners and predicates, slot recycling over several rounds
           ordered  C13: the same over the OrderedQueueList policy, many duplicate keys, three comparators
           empty    C11: emptyq probes from inside listeners/predicates and between operations
           ledger   C08: payload live counts at quiescent points, clear, take, final destruction
"""
import vlib

NK = 5       # event keys 0..NK-1
NCB = 7
NP = 4


def case_text(cid, case):
    out = ['case %s' % cid, 'ordered %d' % case.get('ordered', 0)]
    if case.get('fuel'):
        out.append('fuel %d' % case['fuel'])
    for (c, n) in sorted(case['cbs']):
        out.append('cb %d %d : %s' % (c, n, ' ; '.join(' '.join(x) for x in case['cbs'][(c, n)])))
    for (p, n) in sorted(case['preds']):
        v, body = case['preds'][(p, n)]
        out.append('pred %d %d %d : %s' % (p, n, v, ' ; '.join(' '.join(x) for x in body)))
    out.append('main : ' + ' ; '.join(' '.join(x) for x in case['main']))
    out.append('end')
    return '\n'.join(out) + '\n'


def split_cmds(ws):
    out, cur = [], []
    for w in ws:
        if w == ';':
            if cur:
                out.append(cur)
            cur = []
        else:
            cur.append(w)
    if cur:
        out.append(cur)
    return out


def parse_case_text(text):
    cases, cur = [], None
    for line in text.splitlines():
        ws = line.split()
        if not ws or ws[0] == '#':
            continue
        if ws[0] == 'case':
            cur = {'ordered': 0, 'cbs': {}, 'preds': {}, 'main': []}
            cases.append(cur)
        elif ws[0] == 'ordered':
            cur['ordered'] = int(ws[1])
        elif ws[0] == 'fuel':
            cur['fuel'] = int(ws[1])
        elif ws[0] == 'cb':
            cur['cbs'][(int(ws[1]), int(ws[2]))] = split_cmds(ws[4:])
        elif ws[0] == 'pred':
            cur['preds'][(int(ws[1]), int(ws[2]))] = (int(ws[3]), split_cmds(ws[5:]))
        elif ws[0] == 'main':
            cur['main'] = split_cmds(ws[2:])
    return cases


class Gen:
    def __init__(self, rng, flavour):
        self.r = rng
        self.fl = flavour
        self.stats = {}
        self.nreg = [0] * NK

    def stat(self, k):
        self.stats[k] = self.stats.get(k, 0) + 1

    def key(self):
        r = self.r
        if self.fl == 'ordered':
            return r.below(NK) if r.chance(80) else r.pick([0, 3])
        return r.below(3) if r.chance(70) else r.below(NK)

    def hreg(self, k, new=False):
        # registers of key k are k*100 + j
        if new:
            j = self.nreg[k]
            self.nreg[k] = min(j + 1, 40)
            return k * 100 + j
        n = self.nreg[k]
        if n == 0 or self.r.chance(8):
            return k * 100 + 90 + self.r.below(2)
        return k * 100 + self.r.below(n)

    def cmd(self, depth):
        r = self.r
        fl = self.fl
        w = [('enqueue', 26), ('process', 12), ('processone', 10), ('processif', 8), ('processuntil', 6),
             ('append', 10), ('prepend', 3), ('insert', 4), ('remove', 7), ('dispatch', 4),
             ('peek', 3), ('take', 4), ('dispatchtaken', 2), ('clear', 2), ('emptyq', 4)]
        if fl == 'empty':
            w += [('emptyq', 25), ('waitfor0', 12)]
        if fl == 'ledger' and depth == 0:
            w += [('ledger', 18), ('clear', 4), ('take', 5)]
        if depth > 0:
            # inside listeners and predicates: fewer heavy operations
            w = [(k, (v if k in ('enqueue', 'emptyq', 'waitfor0', 'remove', 'append') else max(1, v // 3))) for k, v in w]
        kind = r.weighted(w)
        self.stat(('body_' if depth else 'main_') + kind)
        k = self.key()
        if kind in ('append', 'prepend'):
            return [kind, str(k), str(r.range(1, NCB)), str(self.hreg(k, new=(depth == 0 or r.chance(50))))]
        if kind == 'insert':
            return ['insert', str(k), str(r.range(1, NCB)), str(self.hreg(k)), str(self.hreg(k, new=(depth == 0 or r.chance(50))))]
        if kind == 'remove':
            return ['remove', str(k), str(self.hreg(k))]
        if kind in ('dispatch', 'enqueue'):
            return [kind, str(k), str(r.range(1, 999))]
        if kind in ('processif', 'processuntil'):
            return [kind, str(r.range(1, NP))]
        if kind in ('take', 'dispatchtaken'):
            return [kind, str(r.below(3))]
        return [kind]

    def gen(self):
        r = self.r
        case = {'ordered': 0, 'cbs': {}, 'preds': {}, 'main': []}
        if self.fl == 'ordered':
            case['ordered'] = r.range(1, 3)
        elif r.chance(15):
            case['ordered'] = r.range(1, 3)
        # a few listeners first so that dispatches are visible
        for _ in range(r.range(1, 5)):
            k = self.key()
            case['main'].append(['append', str(k), str(r.range(1, NCB)), str(self.hreg(k, new=True))])
        for _ in range(r.range(8, 45)):
            case['main'].append(self.cmd(0))
        # drain and observe
        tail = [['emptyq'], ['process'], ['emptyq']]
        if self.fl == 'ledger':
            tail = [['ledger']] + tail + [['ledger'], ['final']]
        case['main'] += tail
        nested = r.chance(75)
        if nested:
            for c in range(1, NCB + 1):
                if r.chance(55):
                    for n in range(1, r.range(1, 3) + 1):
                        if r.chance(70):
                            case['cbs'][(c, n)] = [self.cmd(1) for _ in range(r.range(1, 3))]
        for p in range(1, NP + 1):
            for n in range(1, r.range(2, 8)):
                body = [self.cmd(1) for _ in range(r.range(1, 2))] if (nested and r.chance(25)) else []
                case['preds'][(p, n)] = (1 if r.chance(50) else 0, body)
        return case


def nontrivial(case, trace):
    calls = sum(1 for l in trace if l.startswith('call'))
    return calls >= 2 and any(l.startswith('ret') for l in trace)


def features(case, trace):
    f = set()
    if case['ordered']:
        f.add('ordered%d' % case['ordered'])
    if case['cbs']:
        f.add('nested')
    for body in list(case['cbs'].values()) + [b for (_, b) in case['preds'].values()]:
        for c in body:
            f.add('body_' + c[0])
    for c in case['main']:
        if c[0] in ('processif', 'processuntil', 'take', 'peek', 'clear', 'ledger'):
            f.add(c[0])
    if any(l.startswith('pred') for l in trace):
        f.add('pred_evaluated')
    return f


def shrink(case, still_fails, max_tests=300):
    tests = [0]

    def ok(c):
        tests[0] += 1
        if tests[0] > max_tests:
            return False
        try:
            return still_fails(c)
        except Exception:
            return False
    cur = {'ordered': case['ordered'], 'cbs': dict(case['cbs']), 'preds': dict(case['preds']), 'main': list(case['main'])}
    changed = True
    while changed and tests[0] <= max_tests:
        changed = False
        size = max(1, len(cur['main']) // 2)
        while size >= 1:
            i = 0
            while i < len(cur['main']):
                cand = dict(cur)
                cand['main'] = cur['main'][:i] + cur['main'][i + size:]
                if cand['main'] and ok(cand):
                    cur = cand
                    changed = True
                else:
                    i += size
            size //= 2
        for key in sorted(cur['cbs']):
            cand = dict(cur)
            cand['cbs'] = {k: v for k, v in cur['cbs'].items() if k != key}
            if ok(cand):
                cur = cand
                changed = True
        for key in sorted(cur['preds']):
            cand = dict(cur)
            cand['preds'] = {k: v for k, v in cur['preds'].items() if k != key}
            if ok(cand):
                cur = cand
                changed = True
                continue
            v, body = cur['preds'][key]
            if body:
                cand = dict(cur)
                cand['preds'] = dict(cur['preds'])
                cand['preds'][key] = (v, [])
                if ok(cand):
                    cur = cand
                    changed = True
    return cur


def correspond(ctx, binaries, cases, keep=lambda l: True, oracle='mech', what='EventQueue'):
    ids = [str(i) for i in range(len(cases))]
    texts = {i: case_text(i, cases[int(i)]) for i in ids}
    model = vlib.run_model(oracle, ''.join(texts[i] for i in ids), driver='q')
    usable = [i for i in ids if 'error' not in model.get(i, ['error'])]
    stats = {'generated': len(cases), 'model_error_discarded': len(ids) - len(usable), 'compared': 0, 'disagreements': 0,
             'model_sloterror': sum(1 for i in usable if 'sloterror' in model[i])}
    feats, distinct = {}, set()
    for i in usable:
        if nontrivial(cases[int(i)], model[i]):
            distinct.add(texts[i].split('\n', 1)[1])
        for f in features(cases[int(i)], model[i]):
            feats[f] = feats.get(f, 0) + 1
    stats['distinct_nontrivial'] = len(distinct)
    stats['features'] = feats
    reported = 0
    kimpl = lambda l: keep(l) or l.startswith('CRASH') or l.startswith('HANG')   # noqa: E731
    for bname, binary in binaries.items():
        impl = vlib.run_impl(binary, texts, usable)
        if '__exit__' in impl:
            ctx.violation(''.join(texts[i] for i in usable[:50]), '%s: harness %s: %s at process exit' % (what, bname, impl['__exit__'][0]), key='exit-leak')
            reported += 1
        for i in usable:
            stats['compared'] += 1
            a = vlib.filt(model[i], keep)
            b = vlib.filt(impl.get(i, ['<missing>']), kimpl)
            if a == b:
                continue
            stats['disagreements'] += 1
            if reported >= 3:
                continue
            reported += 1

            def still(c, binary=binary):
                t = case_text('0', c)
                m = vlib.run_model(oracle, t, driver='q').get('0', ['error'])
                if 'error' in m:
                    return False
                im = vlib.run_impl(binary, {'0': t}, ['0'], timeout=60).get('0', ['<missing>'])
                return vlib.filt(m, keep) != vlib.filt(im, kimpl)
            hung = any(l.startswith('HANG') for l in impl.get(i, []))
            small = shrink(cases[int(i)], still, max_tests=40 if hung else 300)
            t = case_text('0', small)
            m = vlib.run_model(oracle, t, driver='q').get('0', [])
            sp = vlib.run_model('spec', t, driver='q').get('0', [])
            im = vlib.run_impl(binary, {'0': t}, ['0'], timeout=60).get('0', [])
            d = vlib.first_diff(vlib.filt(m, keep), vlib.filt(im, kimpl))
            replay = t + '# harness: %s\n# model(%s): %s\n# spec    : %s\n# impl    : %s\n' % (bname, oracle, ' | '.join(m), ' | '.join(sp), ' | '.join(im))
            ctx.violation(replay, '%s: implementation (%s) differs from the %s at trace line %s: expected `%s`, implementation `%s`'
                          % (what, bname, 'proved model' if oracle == 'mech' else 'specification (oracle; a proof obligation is broken)',
                             d[0] if d else '?', d[1] if d else '?', d[2] if d else '?'))
    return stats, model, texts, usable


def replay_file(ctx, path, binaries, keep=lambda l: True):
    cases = parse_case_text(open(path).read())
    bad = 0
    kimpl = lambda l: keep(l) or l.startswith('CRASH') or l.startswith('HANG')   # noqa: E731
    for k, case in enumerate(cases):
        t = case_text(str(k), case)
        m = vlib.run_model('mech', t, driver='q').get(str(k), ['error'])
        print('model : ' + ' | '.join(m))
        for bname, binary in binaries.items():
            im = vlib.run_impl(binary, {str(k): t}, [str(k)], timeout=120).get(str(k), ['<missing>'])
            print('impl %s: %s' % (bname, ' | '.join(im)))
            if 'error' not in m and vlib.filt(m, keep) != vlib.filt(im, kimpl):
                bad += 1
    return bad
