#!/usr/bin/env python3
"""check.py <property id> quick|thorough     run the check of one property
   check.py <property id> --replay <file>    re-run one recorded case on model and implementation

exit 0: the property held on everything explored (KNOWN-FINDING lines may be printed)
exit 1: a line `VIOLATION property=<id> replay=<path>` was printed
Honours VERIF_SEED.  Rewrites /verif/evidence/<id>.json on every run."""
import importlib
import os
import sys
import traceback

sys.path.insert(0, os.path.dirname(os.path.abspath(__file__)))
import vlib  # noqa: E402


def main():
    if len(sys.argv) < 3:
        print(__doc__)
        return 2
    pid = sys.argv[1]
    seed = int(os.environ.get('VERIF_SEED', '1') or '1')
    mod = importlib.import_module('props.' + pid)
    if sys.argv[2] == '--replay':
        ctx = vlib.Ctx(pid, 'quick', seed)
        try:
            bad = mod.replay(ctx, sys.argv[3])
        finally:
            ctx.cleanup()
        print('replay: %d disagreement(s)' % bad)
        return 1 if bad else 0
    tier = sys.argv[2]
    if tier not in ('quick', 'thorough'):
        tier = os.environ.get('VERIF_TIER', 'quick')
    ctx = vlib.Ctx(pid, tier, seed)
    try:
        mod.run(ctx)
    except Exception:
        # a crash of the machinery itself is never reported as a property violation
        traceback.print_exc()
        ctx.cleanup()
        print('check machinery failed for %s (this is not a verdict on the property)' % pid)
        return 2
    return ctx.finish(getattr(mod, 'LEVEL', 'proof'))


if __name__ == '__main__':
    sys.exit(main())
