#!/usr/bin/env python3
"""check.py <property id> quick|thorough     run the check of one property
   check.py <property id> --replay <file>    re-run one recorded case on model and implementation

exit 0: the property held on everything explored (KNOWN-FINDING lines may be printed)
exit 1: a line `VIOLATION property=<id> replay=<path>` was printed (with ` no-failing-input-found` appended when a proof
        obligation or a correspondence no longer checks — including a harness that no longer builds — and no input was found)
Honours VERIF_SEED.  Rewrites /verif/evidence/<id>.json on every run."""
import importlib
import os
import sys
import traceback

sys.path.insert(0, os.path.dirname(os.path.abspath(__file__)))
import vlib  # noqa: E402


def main():
    if len(sys.argv) < 3:
        print(__doc__)
        return 2
    pid = sys.argv[1]
    seed = int(os.environ.get('VERIF_SEED', '1') or '1')
    mod = importlib.import_module('props.' + pid)
    if sys.argv[2] == '--replay':
        ctx = vlib.Ctx(pid, 'quick', seed)
        try:
            bad = mod.replay(ctx, sys.argv[3])
        finally:
            ctx.cleanup()
        print('replay: %d disagreement(s)' % bad)
        return 1 if bad else 0
    tier = sys.argv[2]
    if tier not in ('quick', 'thorough'):
        tier = os.environ.get('VERIF_TIER', 'quick')
    ctx = vlib.Ctx(pid, tier, seed)
    try:
        mod.run(ctx)
    except Exception as e:
        # The machinery could not be applied to the tree that is there (a harness that no longer compiles against the
        # headers, a translator or driver that fails): the property is then not shown to hold.  That is reported the way
        # the brief asks for a tie that no longer checks and for which no failing input was found — the replay file names
        # what broke — and never as an input on which the property fails.
        tb = traceback.format_exc()
        traceback.print_exc()
        ctx.violation('# the check could not be carried out on the current tree; tie that no longer checks:\n# '
                      + '\n# '.join(tb.strip().splitlines()[-12:]) + '\n',
                      'the model/implementation correspondence of %s could not be established on this tree: %s' % (pid, ' '.join(str(e).split())[:300]),
                      no_input=True)
    return ctx.finish(getattr(mod, 'LEVEL', 'proof'))


if __name__ == '__main__':
    sys.exit(main())
