"""exn_domain.py — case generators, serialiser, measurement, comparison and shrinker for domain `exn`
(C09: coq/ExnModel.v + coq/ExnQueue.v, harness/exn.cpp, ocaml/driver_exn.ml).

Two kinds of cases:

  plan   dict(kind='plan', plan=[cmd])       fault plans (part 1).  `fault <k> <m> <op...>`: the harness arms its
         countdown at k for that one library call; <m> is `?` when the case is generated.  MEASURE: the harness is
         run first, its outcome lines (`nofault` | `exn <kind>` | `terminated`) are read back, in order, into the <m>
         fields, and only then the model is run — the model is told WHICH KIND of point failed (so it never has to
         know how many allocations or comparisons the standard library makes) and must predict everything else:
         whether the exception reaches the caller, every list, the pending events, the remover's records, the ledger.
  throw  dict(kind='throw', cbs, flts, preds, main)   throwing listeners / filters / predicates (part 2); fully
         determined by the case text, nothing is measured.

Object ids (plan cases): 1-9 CallbackList, 10-19 EventDispatcher, 20-29 EventQueue (std::list), 30-39 EventQueue
(OrderedQueueList), 40-49 HeterCallbackList, 50-59 ScopedRemover.
"""
import vlib

OUTCOMES = ('nofault', 'terminated')


# ------------------------------------------------------------------------------------------ text

def cmds_text(cmds):
    return ' ; '.join(' '.join(str(w) for w in c) for c in cmds)


def case_text(cid, case):
    out = ['case %s' % cid, 'kind %s' % case['kind']]
    if case.get('key'):
        out.append('# key: %s' % case['key'])
    if case['kind'] == 'plan':
        out.append('plan : ' + cmds_text(case['plan']))
    else:
        if case.get('fuel'):
            out.append('fuel %d' % case['fuel'])
        for (c, n) in sorted(case['cbs']):
            out.append('cb %d %d : %s' % (c, n, cmds_text(case['cbs'][(c, n)])))
        for (f, n) in sorted(case['flts']):
            v, body = case['flts'][(f, n)]
            out.append('flt %d %d %d : %s' % (f, n, v, cmds_text(body)))
        for (p, n) in sorted(case['preds']):
            v, body = case['preds'][(p, n)]
            out.append('pred %d %d %d : %s' % (p, n, v, cmds_text(body)))
        out.append('main : ' + cmds_text(case['main']))
    out.append('end')
    return '\n'.join(out) + '\n'


def split_cmds(ws):
    out, cur = [], []
    for w in ws:
        if w == ';':
            if cur:
                out.append(cur)
            cur = []
        else:
            cur.append(w)
    if cur:
        out.append(cur)
    return out


def parse_case_text(text):
    cases, cur = [], None
    for line in text.splitlines():
        ws = line.split()
        if not ws:
            continue
        if ws[0] == '#':
            if cur is not None and len(ws) >= 3 and ws[1] == 'key:':
                cur['key'] = ws[2]
            continue
        if ws[0] == 'case':
            cur = {'kind': 'throw', 'cbs': {}, 'flts': {}, 'preds': {}, 'main': [], 'plan': []}
            cases.append(cur)
        elif cur is None:
            continue
        elif ws[0] == 'kind':
            cur['kind'] = ws[1]
        elif ws[0] == 'fuel':
            cur['fuel'] = int(ws[1])
        elif ws[0] == 'cb':
            cur['cbs'][(int(ws[1]), int(ws[2]))] = split_cmds(ws[4:])
        elif ws[0] == 'flt':
            cur['flts'][(int(ws[1]), int(ws[2]))] = (int(ws[3]), split_cmds(ws[5:]))
        elif ws[0] == 'pred':
            cur['preds'][(int(ws[1]), int(ws[2]))] = (int(ws[3]), split_cmds(ws[5:]))
        elif ws[0] == 'main':
            cur['main'] = split_cmds(ws[2:])
        elif ws[0] == 'plan':
            cur['plan'] = split_cmds(ws[2:])
    return cases


# ------------------------------------------------------------------------------------------ plan generator

NKEY = 3
NCB = 9


class PlanGen:
    """one scenario = prefix (normal operations building some state) + target operation + suffix (observations and
    further normal operations); family(): the scenario with `fault k ? target` for k = 1..kmax, plus `in succession`
    variants (the same call failing at k1, then at k2, then completing)."""

    TARGETS = [('cladd', 10), ('classign', 8), ('clcopy', 5), ('clremove', 1),
               ('dadd', 12), ('dremove', 3), ('dcopy', 5), ('dassign', 6),
               ('sradd', 12), ('srcladd', 8), ('cradd', 6), ('cnadd', 6),
               ('enqueue', 10), ('oenqueue', 10), ('peek', 4),
               ('hadd', 5), ('hcopy', 3), ('hassign', 7)]

    def __init__(self, rng):
        self.r = rng
        self.nreg = 0
        self.regs = {}          # reg -> (obj, key)
        self.used = set()       # objects that exist
        self.removers = {}      # remover id -> target object
        self.lists = {}         # (obj, key) -> approximate number of listeners (for choosing interesting targets)
        self.nq = {}            # queue -> approximate number of pending events

    def newreg(self, obj, key):
        self.nreg += 1
        self.regs[self.nreg] = (obj, key)
        return self.nreg

    def somereg(self, obj, key):
        mine = [g for g, ok in self.regs.items() if ok == (obj, key)]
        r = self.r
        if mine and r.chance(80):
            return r.pick(mine)
        if self.regs and r.chance(50):
            return r.pick(sorted(self.regs))       # a handle of another list: treated as "no position"
        return 0

    def key(self):
        return self.r.below(NKEY)

    def cb(self):
        return self.r.range(1, NCB)

    def place(self):
        return self.r.weighted([(0, 5), (1, 3), (2, 3)])

    def disp(self, queues=True):
        pool = [10, 11] + ([20, 21] if queues else [])
        return self.r.pick(pool)

    def remover_for(self, kind):
        r = self.r
        ids = [50, 51] if kind == 'sradd' else [52, 53]
        rid = r.pick(ids)
        if rid not in self.removers:
            self.removers[rid] = r.pick([10, 20]) if kind == 'sradd' else r.pick([1, 2])
        return rid, self.removers[rid]

    def op(self, kind):
        """returns (op words, objects to observe as [(obj, key)], queues to observe, removers to observe)"""
        r = self.r
        if kind == 'cladd':
            o = r.range(1, 3)
            reg = self.newreg(o, 0)
            self.lists[(o, 0)] = self.lists.get((o, 0), 0) + 1
            return ['cladd', self.place(), self.somereg(o, 0), o, self.cb(), reg], [(o, 0)], [], []
        if kind == 'clremove':
            o = r.range(1, 3)
            return ['clremove', o, self.somereg(o, 0)], [(o, 0)], [], []
        if kind in ('clcopy', 'classign'):
            src = r.range(1, 3)
            dst = r.range(4, 8) if kind == 'clcopy' else r.pick([x for x in (1, 2, 3, 4) if x != src])
            if kind == 'clcopy':
                while dst in self.used:
                    dst += 1
                    if dst > 9:
                        dst = 9
                        break
            self.used.add(dst)
            return [kind, dst, src], [(dst, 0), (src, 0)], [], []
        if kind in ('dadd', 'cradd', 'cnadd'):
            # listeners added through a Counter/ConditionalRemover share one Data block between the copies of a
            # dispatcher (the callback object is not copied): they live in objects 12 / 22, which are never copied,
            # so that the ledger `live` stays one callback object per listener everywhere else
            d = self.disp(queues=True) if kind == 'dadd' else self.r.pick([12, 22])
            k = self.key()
            reg = self.newreg(d, k)
            self.lists[(d, k)] = self.lists.get((d, k), 0) + 1
            return [kind, self.place(), self.somereg(d, k), d, k, self.cb(), reg], [(d, k)], [], []
        if kind == 'dremove':
            d = self.disp()
            k = self.key()
            return ['dremove', d, k, self.somereg(d, k)], [(d, k)], [], []
        if kind in ('dcopy', 'dassign'):
            base = r.pick([10, 20])
            src = base + r.below(2)
            if kind == 'dcopy':
                dst = base + 3
                while dst in self.used and dst < base + 9:
                    dst += 1
            else:
                dst = base + (1 - (src - base)) if r.chance(70) else base + 3
            self.used.add(dst)
            obs = [(dst, k) for k in range(NKEY)] + [(src, k) for k in range(NKEY)]
            return [kind, dst, src], obs, [], []
        if kind == 'sradd':
            rid, d = self.remover_for(kind)
            k = self.key()
            reg = self.newreg(d, k)
            return ['sradd', self.place(), self.somereg(d, k), rid, d, k, self.cb(), reg], [(d, k)], [], [rid]
        if kind == 'srcladd':
            rid, o = self.remover_for(kind)
            reg = self.newreg(o, 0)
            return ['srcladd', self.place(), self.somereg(o, 0), rid, o, self.cb(), reg], [(o, 0)], [], [rid]
        if kind in ('enqueue', 'oenqueue'):
            q = (20 if kind == 'enqueue' else 30) + r.below(2)
            k = self.key()
            self.nq[q] = self.nq.get(q, 0) + 1
            return ['enqueue', 1 if kind == 'oenqueue' else 0, q, k, r.range(1, 99)], [], [q], []
        if kind == 'peek':
            q = r.pick([20, 21, 30, 31])
            return ['peek', q], [], [q], []
        if kind == 'hadd':
            o = 40 + r.below(2)
            proto = r.below(2)
            reg = self.newreg(o, proto)
            return ['hadd', self.place(), self.somereg(o, proto), o, proto, self.cb(), reg], [(o, proto)], [], []
        if kind in ('hcopy', 'hassign'):
            src = 40 + r.below(2)
            if kind == 'hcopy':
                dst = 42
                while dst in self.used and dst < 49:
                    dst += 1
            else:
                dst = 41 if src == 40 else 40
            self.used.add(dst)
            return [kind, dst, src], [(dst, 0), (dst, 1), (src, 0), (src, 1)], [], []
        raise ValueError(kind)

    def prefix_for(self, kind):
        """normal operations that make the target interesting (lists to copy, events to order, slots to recycle)"""
        r = self.r
        out = []

        def do(k):
            w, _, _, _ = self.op(k)
            out.append(['do'] + w)
        n = r.range(0, 3)
        pool = {'cladd': ['cladd'], 'clremove': ['cladd'], 'clcopy': ['cladd'], 'classign': ['cladd'],
                'dadd': ['dadd', 'cradd'], 'dremove': ['dadd'], 'dcopy': ['dadd', 'sradd'], 'dassign': ['dadd', 'cnadd'],
                'sradd': ['dadd', 'sradd'], 'srcladd': ['cladd', 'srcladd'], 'cradd': ['dadd'], 'cnadd': ['dadd'],
                'enqueue': ['enqueue', 'dadd'], 'oenqueue': ['oenqueue', 'dadd'], 'peek': ['enqueue', 'oenqueue'],
                'hadd': ['hadd'], 'hcopy': ['hadd'], 'hassign': ['hadd']}[kind]
        for _ in range(n + (2 if kind in ('clcopy', 'classign', 'dcopy', 'dassign', 'hcopy', 'hassign', 'oenqueue', 'peek') else 0)):
            do(r.pick(pool))
        if kind in ('enqueue', 'oenqueue') and r.chance(50):
            # a drained queue has recycled slots in its free list
            q = r.pick([20, 21] if kind == 'enqueue' else [30, 31])
            out.append(['do', 'enqueue', 0 if kind == 'enqueue' else 1, q, self.key(), r.range(1, 99)])
            out.append(['drain', q])
        for _ in range(r.range(0, 2)):
            do(r.pick([k for k, _ in self.TARGETS if k not in ('clcopy', 'dcopy', 'hcopy', 'peek', 'clremove', 'dremove')]))
        # state the abstract world does not see: a failed add leaves an empty list under its key in the map, merely
        # enumerating / invoking a HeterCallbackList creates the homogeneous list of that prototype
        if r.chance(35):
            k = r.pick(['dadd', 'sradd', 'hadd', 'cladd', 'enqueue', 'oenqueue'])
            w, _, _, _ = self.op(k)
            out.append(['fault', r.range(1, 9), '?'] + w)
        if r.chance(30):
            o = r.pick([40, 41, 10, 11, 20])
            out.append([r.pick(['list', 'dispatch']), o, r.below(2)])
        return out

    def observe(self, lists, queues, removers):
        out = []
        for (o, k) in lists:
            out.append(['list', o, k])
        for q in queues:
            out.append(['pending', q])
        for rid in removers:
            out.append(['records', rid])
        out.append(['live'])
        return out

    def scenario(self, kind):
        prefix = self.prefix_for(kind)
        target, lists, queues, removers = self.op(kind)
        return prefix, target, lists, queues, removers

    def suffix(self, kind, target, lists, queues, removers):
        """after the (possibly failed) call: observe, then use the objects normally"""
        r = self.r
        out = self.observe(lists, queues, removers)
        if kind in ('dassign',):
            # destination unspecified after a failure: assign again (or drop it) before looking closer
            if r.chance(80):
                out.append(['do'] + target)
            else:
                out.append(['destroy', target[1]])
            out += self.observe(lists, queues, removers)
        for (o, k) in lists[:2]:
            out.append(['dispatch', o, k])
        # the same call once more, without fault: the object is fully usable
        if kind not in ('clcopy', 'dcopy', 'hcopy'):
            again = list(target)
            if kind in ('cladd', 'dadd', 'sradd', 'srcladd', 'cradd', 'cnadd', 'hadd'):
                again[-1] = self.newreg(*self.regs.get(target[-1], (0, 0)))
            out.append(['do'] + again)
        else:
            out.append(['do', {'clcopy': 'classign', 'dcopy': 'dassign', 'hcopy': 'hassign'}[kind], target[1], target[2]])
        out += self.observe(lists, queues, removers)
        for q in queues:
            out.append(['drain', q])
            out.append(['pending', q])
        for rid in removers:
            out.append(['release', rid])
        for (o, k) in lists[:2]:
            out.append(['list', o, k])
        out.append(['live'])
        return out


def plan_family(rng, kmax=14, kind=None):
    g = PlanGen(rng)
    if kind is None:
        kind = rng.weighted(PlanGen.TARGETS)
    prefix, target, lists, queues, removers = g.scenario(kind)
    suffix = g.suffix(kind, target, lists, queues, removers)
    cases = []
    for k in range(1, kmax + 1):
        cases.append({'kind': 'plan', 'target': kind, 'plan': prefix + [['fault', k, '?'] + target] + suffix})
    # in succession: fails at k1, is retried and fails at k2, is retried and completes (suffix does that)
    for _ in range(2):
        k1, k2 = rng.range(1, kmax), rng.range(1, kmax)
        again = list(target)
        mid = [['fault', k1, '?'] + target] + g.observe(lists, queues, removers)
        if kind in ('clcopy', 'dcopy', 'hcopy'):
            mid.append(['destroy', target[1]])
        mid.append(['fault', k2, '?'] + again)
        cases.append({'kind': 'plan', 'target': kind, 'plan': prefix + mid + suffix})
    return kind, cases


# ------------------------------------------------------------------------------------------ throw generator

NTK = 3
NTCB = 6
NTF = 3
NTP = 3


class ThrowGen:
    def __init__(self, rng):
        self.r = rng
        self.stats = {}
        self.nreg = [0] * NTK
        self.nfreg = 0

    def stat(self, k):
        self.stats[k] = self.stats.get(k, 0) + 1

    def key(self):
        r = self.r
        return r.below(2) if r.chance(70) else r.below(NTK)

    def hreg(self, k, new=False):
        if new:
            j = self.nreg[k]
            self.nreg[k] = min(j + 1, 40)
            return k * 100 + j
        n = self.nreg[k]
        if n == 0 or self.r.chance(8):
            return k * 100 + 90
        return k * 100 + self.r.below(n)

    def cmd(self, depth):
        r = self.r
        w = [('enqueue', 24), ('process', 12), ('processone', 10), ('processif', 8), ('processuntil', 6),
             ('append', 8), ('prepend', 2), ('insert', 3), ('remove', 6), ('dispatch', 6),
             ('emptyq', 8), ('canprocess', 4), ('addfilter', 2), ('removefilter', 1)]
        if depth == 0:
            w += [('ledger', 10)]
        else:
            w = [(k, (v if k in ('enqueue', 'emptyq', 'remove', 'append', 'canprocess') else max(1, v // 3))) for k, v in w]
            w += [('throw', 18 if depth == 1 else 30)]
        kind = r.weighted(w)
        self.stat(('body_' if depth else 'main_') + kind)
        k = self.key()
        if kind in ('append', 'prepend'):
            return [kind, k, r.range(1, NTCB), self.hreg(k, new=(depth == 0 or r.chance(50)))]
        if kind == 'insert':
            return ['insert', k, r.range(1, NTCB), self.hreg(k), self.hreg(k, new=(depth == 0 or r.chance(50)))]
        if kind == 'remove':
            return ['remove', k, self.hreg(k)]
        if kind in ('dispatch', 'enqueue'):
            return [kind, k, r.range(1, 999)]
        if kind in ('processif', 'processuntil'):
            return [kind, r.range(1, NTP)]
        if kind == 'addfilter':
            self.nfreg += 1
            return ['addfilter', r.range(1, NTF), self.nfreg]
        if kind == 'removefilter':
            return ['removefilter', r.range(0, max(1, self.nfreg))]
        if kind == 'throw':
            return ['throw', r.range(1, 9)]
        return [kind]

    def body(self, depth):
        r = self.r
        n = r.range(1, 3)
        out = [self.cmd(depth) for _ in range(n)]
        # nothing after a throw is ever executed: keep it last
        for i, c in enumerate(out):
            if c[0] == 'throw':
                out = out[:i + 1]
                break
        return out

    def gen(self):
        r = self.r
        case = {'kind': 'throw', 'cbs': {}, 'flts': {}, 'preds': {}, 'main': []}
        for _ in range(r.range(2, 5)):
            k = self.key()
            case['main'].append(['append', k, r.range(1, NTCB), self.hreg(k, new=True)])
        if r.chance(35):
            self.nfreg += 1
            case['main'].append(['addfilter', r.range(1, NTF), self.nfreg])
        for _ in range(r.range(8, 36)):
            case['main'].append(self.cmd(0))
        case['main'] += [['emptyq'], ['canprocess'], ['ledger'], ['process'], ['emptyq'], ['ledger'],
                         ['enqueue', 0, 1], ['processone'], ['emptyq'], ['ledger']]
        for c in range(1, NTCB + 1):
            if r.chance(65):
                for n in range(1, r.range(1, 4) + 1):
                    if r.chance(65):
                        case['cbs'][(c, n)] = self.body(1 if r.chance(70) else 2)
        for f in range(1, NTF + 1):
            for n in range(1, r.range(1, 6)):
                body = self.body(1) if r.chance(30) else []
                case['flts'][(f, n)] = (0 if r.chance(20) else 1, body)
        for p in range(1, NTP + 1):
            for n in range(1, r.range(2, 8)):
                body = self.body(1) if r.chance(35) else []
                case['preds'][(p, n)] = (1 if r.chance(50) else 0, body)
        return case


# ------------------------------------------------------------------------------------------ measurement + comparison

def is_outcome(line):
    return line in OUTCOMES or line.startswith('exn ')


def measure(case, impl_trace):
    """fills the `?` of the fault commands with what the real run did, in order"""
    if case['kind'] != 'plan':
        return case
    outs = [l for l in impl_trace if is_outcome(l)]
    plan = []
    i = 0
    for c in case['plan']:
        if c[0] == 'fault':
            m = 'nofault'
            if i < len(outs):
                m = outs[i].split()[1] if outs[i].startswith('exn ') else outs[i]
            i += 1
            plan.append([c[0], c[1], m] + list(c[3:]))
        else:
            plan.append(c)
    out = dict(case)
    out['plan'] = plan
    return out


def line_matches(model_line, impl_line):
    if model_line == impl_line:
        return True
    if model_line.endswith(' unspecified'):
        stem = model_line[:-len('unspecified')]
        return impl_line.startswith(stem)
    return False


def compare(model, impl):
    """None when the traces agree; else (index, model line, impl line)"""
    m = list(model)
    im = list(impl)
    # after std::terminate the process is gone: nothing follows `terminated` on either side
    if 'terminated' in m:
        m = m[:m.index('terminated') + 1]
    if 'terminated' in im:
        im = im[:im.index('terminated') + 1]
    for i in range(max(len(m), len(im))):
        a = m[i] if i < len(m) else '<nothing>'
        b = im[i] if i < len(im) else '<nothing>'
        if not line_matches(a, b):
            return i, a, b
    return None


def run_cases(binary, cases, oracle='code'):
    """returns (model traces, impl traces, measured cases, texts) keyed by str index"""
    ids = [str(i) for i in range(len(cases))]
    raw = {i: case_text(i, cases[int(i)]) for i in ids}
    impl = vlib.run_impl(binary, raw, ids)
    measured = {i: measure(cases[int(i)], impl.get(i, [])) for i in ids}
    texts = {i: case_text(i, measured[i]) for i in ids}
    model = vlib.run_model(oracle, ''.join(texts[i] for i in ids), driver='exn')
    return model, impl, measured, texts


def nontrivial(case, model_trace):
    if case['kind'] == 'plan':
        return any(l.startswith('exn ') for l in model_trace) and sum(1 for l in model_trace if l.startswith('list') or l.startswith('pending')) >= 2
    return any(l.startswith('caught') for l in model_trace) and sum(1 for l in model_trace if l.startswith('call')) >= 2


def features(case, trace):
    f = set()
    if case['kind'] == 'plan':
        f.add('target_' + str(case.get('target', '?')))
        for l in trace:
            if l.startswith('exn '):
                f.add('fault_' + l.split()[1])
            if l == 'nofault':
                f.add('fault_none')
            if l.endswith('unspecified'):
                f.add('unspecified_destination')
        if sum(1 for c in case['plan'] if c[0] == 'fault') > 1:
            f.add('in_succession')
    else:
        if any(l.startswith('caught') for l in trace):
            f.add('caught')
        if any(l.startswith('filt') for l in trace):
            f.add('filter_evaluated')
        if any(l.startswith('pred') for l in trace):
            f.add('pred_evaluated')
        for body in list(case['cbs'].values()) + [b for (_, b) in case['flts'].values()] + [b for (_, b) in case['preds'].values()]:
            for c in body:
                f.add('body_' + str(c[0]))
        for (_, b) in case['flts'].values():
            if any(c[0] == 'throw' for c in b):
                f.add('filter_throws')
        for (_, b) in case['preds'].values():
            if any(c[0] == 'throw' for c in b):
                f.add('pred_throws')
        n = 0
        for l in trace:
            if l.startswith('threw'):
                n += 1
        if n >= 2:
            f.add('several_throws')
    return f


def shrink(case, still_fails, max_tests=150):
    tests = [0]

    def ok(c):
        tests[0] += 1
        if tests[0] > max_tests:
            return False
        try:
            return still_fails(c)
        except Exception:
            return False
    field = 'plan' if case['kind'] == 'plan' else 'main'
    cur = dict(case)
    cur[field] = list(case[field])
    changed = True
    while changed and tests[0] <= max_tests:
        changed = False
        size = max(1, len(cur[field]) // 2)
        while size >= 1:
            i = 0
            while i < len(cur[field]):
                cand = dict(cur)
                cand[field] = cur[field][:i] + cur[field][i + size:]
                if cand[field] and ok(cand):
                    cur = cand
                    changed = True
                else:
                    i += size
            size //= 2
        if case['kind'] == 'throw':
            for tbl in ('cbs', 'flts', 'preds'):
                for key in sorted(cur[tbl]):
                    cand = dict(cur)
                    cand[tbl] = {k: v for k, v in cur[tbl].items() if k != key}
                    if ok(cand):
                        cur = cand
                        changed = True
    return cur


def correspond(ctx, bname, binary, cases, oracle='code', report_limit=3):
    model, impl, measured, texts = run_cases(binary, cases, oracle)
    ids = [str(i) for i in range(len(cases))]
    usable = [i for i in ids if 'error' not in model.get(i, ['error'])]
    stats = {'generated': len(cases), 'model_error_discarded': len(ids) - len(usable), 'compared': 0, 'disagreements': 0,
             'fault_points_exercised': 0, 'faults_thrown': {}, 'no_such_fault_point': 0, 'terminated': 0}
    feats, distinct = {}, set()
    for i in usable:
        case = cases[int(i)]
        if nontrivial(case, model[i]):
            distinct.add(texts[i].split('\n', 1)[1])
        for f in features(case, model[i]):
            feats[f] = feats.get(f, 0) + 1
        for l in impl.get(i, []):
            if l.startswith('exn '):
                stats['fault_points_exercised'] += 1
                stats['faults_thrown'][l.split()[1]] = stats['faults_thrown'].get(l.split()[1], 0) + 1
            if l == 'terminated':
                stats['terminated'] += 1
        if 'no-such-fault-point' in model[i]:
            stats['no_such_fault_point'] += 1
    stats['distinct_nontrivial'] = len(distinct)
    stats['features'] = feats
    reported = 0
    keys_reported = set()
    if '__exit__' in impl:
        ctx.violation(''.join(texts[i] for i in usable[:40]), 'C09: harness %s: %s at process exit (LeakSanitizer / sanitizer verdict)' % (bname, impl['__exit__'][0]),
                      key='exit-leak')
        reported += 1
    for i in usable:
        stats['compared'] += 1
        d = compare(model[i], impl.get(i, ['<missing>']))
        if d is None:
            continue
        stats['disagreements'] += 1
        case = cases[int(i)]
        # up to report_limit reports per harness, plus one per regression-probe key not reported yet
        k = case.get('key')
        if k is not None and k not in keys_reported:
            keys_reported.add(k)
        elif reported >= report_limit:
            continue
        else:
            reported += 1

        def still(c, binary=binary):
            mo, im, _, _ = run_cases(binary, [c], oracle)
            if 'error' in mo.get('0', ['error']):
                return False
            return compare(mo['0'], im.get('0', ['<missing>'])) is not None
        small = shrink(case, still)
        mo, im, meas, tx = run_cases(binary, [small], oracle)
        sp = vlib.run_model('spec', tx['0'], driver='exn').get('0', [])
        dd = compare(mo.get('0', []), im.get('0', ['<missing>'])) or d
        replay = case_text('0', small) + '# measured: %s# harness: %s\n# model(%s): %s\n# spec    : %s\n# impl    : %s\n' % (
            ''.join('# ' + l + '\n' for l in tx['0'].splitlines() if l.startswith('plan')) or '\n',
            bname, oracle, ' | '.join(mo.get('0', [])), ' | '.join(sp), ' | '.join(im.get('0', [])))
        what = describe(small, dd, bname, oracle)
        ctx.violation(replay, what, key=case.get('key'))
    return stats, model, impl, texts, usable


def describe(case, d, bname, oracle):
    i, a, b = d
    src = 'proved model' if oracle == 'code' else 'specification (oracle; a proof obligation is broken)'
    if case['kind'] == 'plan':
        return ('C09 fault plan: implementation (%s) differs from the %s at trace line %d: expected `%s`, implementation `%s` '
                '(after an injected failure the caller must see the exception and the containers must be as before the call)' % (bname, src, i, a, b))
    return ('C09 throwing listener/filter/predicate: implementation (%s) differs from the %s at trace line %d: expected `%s`, implementation `%s`'
            % (bname, src, i, a, b))


def replay_file(ctx, path, binaries):
    cases = parse_case_text(open(path).read())
    bad = 0
    for k, case in enumerate(cases):
        if case['kind'] == 'plan':
            # measurements are taken again
            case = dict(case)
            case['plan'] = [([c[0], c[1], '?'] + list(c[3:])) if c[0] == 'fault' else c for c in case['plan']]
        for bname, binary in binaries.items():
            mo, im, meas, tx = run_cases(binary, [case], 'code')
            print('case  : ' + tx['0'].replace('\n', ' / '))
            print('model : ' + ' | '.join(mo.get('0', ['error'])))
            print('impl %s: %s' % (bname, ' | '.join(im.get('0', ['<missing>']))))
            if 'error' not in mo.get('0', ['error']) and compare(mo['0'], im.get('0', ['<missing>'])) is not None:
                bad += 1
    return bad
