"""heter_domain.py — case generator, serialiser, shrinker and correspondence loop for the
heterogeneous classes (domain `heter`: coq/HeterModel.v, harness/heter.cpp, ocaml/driver_heter.ml).

case = dict(cbs={(c,n): [cmd]}, preds={(p,n): (verdict, [cmd])}, main=[cmd])

Every harness variant has a prototype list; what each callback / predicate / argument kind can be
used with (CanInvoke, decided by the compiler) is the model's `callable` table.  EXPECTED holds the
tables this generator and the proofs' examples assume; every check asks the freshly built harness
for its own table (`heter --table`, computed with eventpp's CanInvoke) and refuses to go on if the
two differ.

flavours:  mixed   everything: listeners of all kinds on queue / dispatcher / list, mixed-prototype
                   events, process / processOne / processIf with every predicate kind, re-entrant
                   bodies, slot recycling over several rounds
           pif     processIf-heavy: a queue drained and refilled with events of OTHER prototypes
                   (recycled slots), then processIf with a predicate of yet another kind
           route   binding and routing: append/prepend/insert/remove of every callback kind on
                   queue, dispatcher and bare list; dispatch with every argument kind
"""
import os

import vlib

NCB = 7
NP = 4
NFN = 11          # functor kinds 0..10
NAK = 8           # argument kinds 0..7 (model kind 20+ak)
QKEYS = [0, 1, 2, 3, 4]
DKEYS = [5, 6, 7]
LKEY = 9

# prototype lists of harness/heter.cpp (VH_LIST) and their CanInvoke tables
#   list 0: void(), void(int), void(const std::string &), void(Payload), void(int,int)
#   list 1: void(int,int), void(const Payload &), void(long), void(std::string), void(int), void()
EXPECTED = {
    0: {'np': 5, 'arity': [0, 1, 1, 1, 2], 'counted': [0, 0, 0, 1, 0], 'rows': {
        0: [1, 0, 0, 0, 0], 1: [0, 1, 0, 0, 0], 2: [0, 1, 0, 0, 0], 3: [0, 0, 1, 0, 0], 4: [0, 0, 1, 0, 0],
        5: [0, 0, 0, 1, 0], 6: [0, 0, 0, 1, 0], 7: [0, 0, 0, 0, 1], 8: [0, 0, 0, 0, 1], 9: [1, 1, 1, 0, 0], 10: [0, 1, 0, 0, 0],
        20: [1, 0, 0, 0, 0], 21: [0, 1, 0, 0, 0], 22: [0, 1, 0, 0, 0], 23: [0, 0, 1, 0, 0], 24: [0, 0, 1, 0, 0],
        25: [0, 0, 0, 1, 0], 26: [0, 0, 0, 1, 0], 27: [0, 0, 0, 0, 1],
        40: [1, 0, 0, 0, 0], 41: [0, 1, 0, 0, 0], 42: [0, 0, 1, 0, 0], 43: [0, 0, 0, 1, 0], 44: [0, 0, 0, 0, 1]}},
    1: {'np': 6, 'arity': [2, 1, 1, 1, 1, 0], 'counted': [0, 1, 0, 0, 0, 0], 'rows': {
        0: [0, 0, 0, 0, 0, 1], 1: [0, 0, 1, 0, 1, 0], 2: [0, 0, 1, 0, 1, 0], 3: [0, 0, 0, 1, 0, 0], 4: [0, 0, 0, 1, 0, 0],
        5: [0, 1, 0, 0, 0, 0], 6: [0, 1, 0, 0, 0, 0], 7: [1, 0, 0, 0, 0, 0], 8: [1, 0, 0, 0, 0, 0], 9: [0, 0, 1, 1, 1, 1], 10: [0, 0, 1, 0, 1, 0],
        20: [0, 0, 0, 0, 0, 1], 21: [0, 0, 1, 0, 1, 0], 22: [0, 0, 1, 0, 1, 0], 23: [0, 0, 0, 1, 0, 0], 24: [0, 0, 0, 1, 0, 0],
        25: [0, 1, 0, 0, 0, 0], 26: [0, 1, 0, 0, 0, 0], 27: [1, 0, 0, 0, 0, 0],
        40: [1, 0, 0, 0, 0, 0], 41: [0, 1, 0, 0, 0, 0], 42: [0, 0, 1, 0, 1, 0], 43: [0, 0, 0, 1, 0, 0], 44: [0, 0, 1, 0, 1, 0], 45: [0, 0, 0, 0, 0, 1]}},
}

# harness variants: (defines, compiler, std)
VARIANTS = {
    'excl_g17': dict(defs=['VH_INCL=0', 'VH_LIST=0', 'VH_POLICY=0'], compiler='g++', std='c++17', list=0, incl=0),
    'excl1_c17': dict(defs=['VH_INCL=0', 'VH_LIST=1', 'VH_POLICY=1'], compiler='clang++', std='c++17', list=1, incl=0),
    'incl_g20': dict(defs=['VH_INCL=1', 'VH_LIST=0', 'VH_POLICY=0'], compiler='g++', std='c++20', list=0, incl=1),
    'incl_c17': dict(defs=['VH_INCL=1', 'VH_LIST=0', 'VH_POLICY=1'], compiler='clang++', std='c++17', list=0, incl=1),
    'incl1_g17': dict(defs=['VH_INCL=1', 'VH_LIST=1', 'VH_POLICY=0'], compiler='g++', std='c++17', list=1, incl=1),
    'excl_c20': dict(defs=['VH_INCL=0', 'VH_LIST=0', 'VH_POLICY=0'], compiler='clang++', std='c++20', list=0, incl=0),
}


def table_text(lst):
    t = EXPECTED[lst]
    out = ['np %d' % t['np'], 'arity : ' + ' '.join(map(str, t['arity'])), 'counted : ' + ' '.join(map(str, t['counted']))]
    for k in sorted(t['rows']):
        out.append('callable %d : %s' % (k, ' '.join(map(str, t['rows'][k]))))
    return '\n'.join(out) + '\n'


def parse_table(text):
    """the harness's own table -> (same structure as EXPECTED[...], problems)"""
    t = {'rows': {}}
    probs = []
    pred, keyl = {}, {}
    for line in text.splitlines():
        ws = line.split()
        if not ws:
            continue
        if ws[0] == 'np':
            t['np'] = int(ws[1])
        elif ws[0] in ('arity', 'counted'):
            t[ws[0]] = [int(x) for x in ws[2:]]
        elif ws[0] == 'callable':
            t['rows'][int(ws[1])] = [int(x) for x in ws[3:]]
        elif ws[0] == 'predrow':
            pred[int(ws[1])] = [int(x) for x in ws[3:]]
        elif ws[0] == 'keylvalue':
            keyl[int(ws[1])] = [int(x) for x in ws[3:]]
    for k, r in pred.items():
        if t['rows'].get(k) != r:
            probs.append('predicate kind %d: row %r differs from the callback row %r' % (k, r, t['rows'].get(k)))
    for k, r in keyl.items():
        if t['rows'].get(k) != r:
            probs.append('argument kind %d: row with an lvalue key %r differs from %r' % (k, r, t['rows'].get(k)))
    return t, probs


def first_match(lst, kind):
    row = EXPECTED[lst]['rows'].get(kind, [])
    for i, b in enumerate(row):
        if b:
            return i
    return None


def case_text(cid, case, lst=0, variant=None):
    out = ['case %s' % cid]
    if variant:
        out.append('variant %s' % variant)
    out.append(table_text(lst).rstrip('\n'))
    if case.get('fuel'):
        out.append('fuel %d' % case['fuel'])
    for (c, n) in sorted(case['cbs']):
        out.append('cb %d %d : %s' % (c, n, ' ; '.join(' '.join(x) for x in case['cbs'][(c, n)])))
    for (p, n) in sorted(case['preds']):
        v, body = case['preds'][(p, n)]
        out.append('pred %d %d %d : %s' % (p, n, v, ' ; '.join(' '.join(x) for x in body)))
    out.append('main : ' + ' ; '.join(' '.join(x) for x in case['main']))
    out.append('end')
    return '\n'.join(out) + '\n'


def split_cmds(ws):
    out, cur = [], []
    for w in ws:
        if w == ';':
            if cur:
                out.append(cur)
            cur = []
        else:
            cur.append(w)
    if cur:
        out.append(cur)
    return out


def parse_case_text(text):
    cases, cur = [], None
    for line in text.splitlines():
        ws = line.split()
        if not ws or ws[0] == '#':
            continue
        if ws[0] == 'case':
            cur = {'cbs': {}, 'preds': {}, 'main': [], 'variant': None, 'np': None}
            cases.append(cur)
        elif cur is None:
            continue
        elif ws[0] == 'variant':
            cur['variant'] = ws[1]
        elif ws[0] == 'np':
            cur['np'] = int(ws[1])
        elif ws[0] == 'fuel':
            cur['fuel'] = int(ws[1])
        elif ws[0] == 'cb':
            cur['cbs'][(int(ws[1]), int(ws[2]))] = split_cmds(ws[4:])
        elif ws[0] == 'pred':
            cur['preds'][(int(ws[1]), int(ws[2]))] = (int(ws[3]), split_cmds(ws[5:]))
        elif ws[0] == 'main':
            cur['main'] = split_cmds(ws[2:])
    return cases


def case_list(case):
    """which prototype list a parsed case was written for"""
    if case.get('variant') in VARIANTS:
        return VARIANTS[case['variant']]['list']
    return 1 if case.get('np') == EXPECTED[1]['np'] else 0


class Gen:
    def __init__(self, rng, flavour):
        self.r = rng
        self.fl = flavour
        self.stats = {}
        self.nreg = {}

    def stat(self, k):
        self.stats[k] = self.stats.get(k, 0) + 1

    def qkey(self):
        return self.r.below(2) if self.r.chance(75) else self.r.pick(QKEYS)

    def anykey(self):
        r = self.r
        x = r.below(100)
        if x < 60:
            return self.qkey()
        if x < 80:
            return r.pick(DKEYS[:2])
        return LKEY

    def hreg(self, k, new=False):
        n = self.nreg.get(k, 0)
        if new:
            self.nreg[k] = min(n + 1, 40)
            return k * 100 + n
        if n == 0 or self.r.chance(8):
            return k * 100 + 90 + self.r.below(2)
        return k * 100 + self.r.below(n)

    def cbkind(self):
        return self.r.below(NFN)

    def argkind(self):
        return self.r.below(NAK)

    def cmd(self, depth):
        r = self.r
        fl = self.fl
        w = [('enqueue', 26), ('process', 9), ('processone', 9), ('processif', 14), ('append', 10), ('prepend', 3), ('insert', 4),
             ('remove', 6), ('dispatch', 6), ('clear', 2), ('emptyq', 3)]
        if fl == 'pif':
            w += [('processif', 22), ('enqueue', 10), ('process', 4)]
        if fl == 'route':
            w = [('append', 22), ('prepend', 8), ('insert', 12), ('remove', 12), ('dispatch', 30), ('enqueue', 8), ('process', 4), ('processif', 3)]
        if depth == 0:
            w += [('ledger', 3)]
        else:
            w = [(k, (v if k in ('enqueue', 'emptyq', 'remove', 'append') else max(1, v // 3))) for k, v in w]
        kind = r.weighted(w)
        self.stat(('body_' if depth else 'main_') + kind)
        if kind in ('append', 'prepend'):
            k = self.anykey()
            return [kind, str(k), str(self.cbkind()), str(r.range(1, NCB)), str(self.hreg(k, new=(depth == 0 or r.chance(50))))]
        if kind == 'insert':
            k = self.anykey()
            return ['insert', str(k), str(self.cbkind()), str(r.range(1, NCB)), str(self.hreg(k)), str(self.hreg(k, new=(depth == 0 or r.chance(50))))]
        if kind == 'remove':
            k = self.anykey()
            return ['remove', str(k), str(self.hreg(k))]
        if kind == 'dispatch':
            return ['dispatch', str(self.anykey()), str(self.argkind()), str(r.range(1, 999))]
        if kind == 'enqueue':
            return ['enqueue', str(self.qkey()), str(self.argkind()), str(r.range(1, 999))]
        if kind == 'processif':
            return ['processif', str(self.cbkind()), str(r.range(1, NP))]
        return [kind]

    def gen(self):
        r = self.r
        case = {'cbs': {}, 'preds': {}, 'main': []}
        # listeners of several kinds first so that dispatches are visible
        for _ in range(r.range(2, 7)):
            k = self.anykey() if self.fl == 'route' else self.qkey()
            case['main'].append(['append', str(k), str(self.cbkind()), str(r.range(1, NCB)), str(self.hreg(k, new=True))])
        # every case: fill and drain first, so that every later event sits in a recycled slot that held
        # an event of (most likely) another prototype
        for _ in range(r.range(1, 4) if self.fl == 'pif' else r.range(1, 2)):
            case['main'].append(['enqueue', str(self.qkey()), str(self.argkind()), str(r.range(1, 999))])
        case['main'].append(['process'] if r.chance(70) else ['clear'])
        for _ in range(r.range(8, 40)):
            case['main'].append(self.cmd(0))
        case['main'] += [['ledger'], ['emptyq'], ['process'], ['emptyq'], ['ledger']]
        nested = r.chance(60)
        if nested:
            for c in range(1, NCB + 1):
                if r.chance(50):
                    for n in range(1, r.range(1, 3) + 1):
                        if r.chance(70):
                            case['cbs'][(c, n)] = [self.cmd(1) for _ in range(r.range(1, 3))]
        for p in range(1, NP + 1):
            for n in range(1, r.range(2, 8)):
                body = [self.cmd(1) for _ in range(r.range(1, 2))] if (nested and r.chance(25)) else []
                case['preds'][(p, n)] = (1 if r.chance(50) else 0, body)
        return case


def nontrivial(case, trace):
    calls = sum(1 for l in trace if l.startswith('call'))
    return calls >= 2 and any(l.startswith('ret') for l in trace) and any(l.startswith('bound') for l in trace)


def features(case, trace, lst):
    f = set()
    if case['cbs']:
        f.add('nested')
    tags = set()
    for c in case['main']:
        if c[0] in ('processif', 'clear', 'ledger', 'insert', 'prepend'):
            f.add(c[0])
        if c[0] == 'processif':
            f.add('predkind%s' % c[1])
        if c[0] in ('append', 'prepend', 'insert'):
            f.add('cbkind%s' % c[2])
            f.add('key%s' % ('L' if c[1] == str(LKEY) else 'D' if int(c[1]) >= 5 else 'Q'))
        if c[0] in ('enqueue', 'dispatch'):
            f.add('argkind%s' % c[2])
        if c[0] == 'enqueue':
            tags.add(first_match(lst, 20 + int(c[2])))
    if len(tags) >= 3:
        f.add('three_or_more_prototypes_queued')
    if any(l.startswith('pred') for l in trace):
        f.add('pred_evaluated')
    return f


def shrink(case, still_fails, max_tests=300):
    tests = [0]

    def ok(c):
        tests[0] += 1
        if tests[0] > max_tests:
            return False
        try:
            return still_fails(c)
        except Exception:
            return False
    cur = {'cbs': dict(case['cbs']), 'preds': dict(case['preds']), 'main': list(case['main'])}
    changed = True
    while changed and tests[0] <= max_tests:
        changed = False
        size = max(1, len(cur['main']) // 2)
        while size >= 1:
            i = 0
            while i < len(cur['main']):
                cand = dict(cur)
                cand['main'] = cur['main'][:i] + cur['main'][i + size:]
                if cand['main'] and ok(cand):
                    cur = cand
                    changed = True
                else:
                    i += size
            size //= 2
        for key in sorted(cur['cbs']):
            cand = dict(cur)
            cand['cbs'] = {k: v for k, v in cur['cbs'].items() if k != key}
            if ok(cand):
                cur = cand
                changed = True
        for key in sorted(cur['preds']):
            cand = dict(cur)
            cand['preds'] = {k: v for k, v in cur['preds'].items() if k != key}
            if ok(cand):
                cur = cand
                changed = True
                continue
            v, body = cur['preds'][key]
            if body:
                cand = dict(cur)
                cand['preds'] = dict(cur['preds'])
                cand['preds'][key] = (v, [])
                if ok(cand):
                    cur = cand
                    changed = True
    return cur


def keep_model(line):
    return True


def correspond(ctx, vname, binary, cases, oracle='mech', what='heterogeneous classes', max_reports=2):
    """one harness variant against the extracted model; returns stats"""
    lst = VARIANTS[vname]['list']
    ids = [str(i) for i in range(len(cases))]
    texts = {i: case_text(i, cases[int(i)], lst, vname) for i in ids}
    model = vlib.run_model(oracle, ''.join(texts[i] for i in ids), driver='heter')
    usable = [i for i in ids if 'error' not in model.get(i, ['error'])]
    stats = {'generated': len(cases), 'model_error_discarded': len(ids) - len(usable), 'compared': 0, 'disagreements': 0,
             'model_sloterror': sum(1 for i in usable if 'sloterror' in model[i])}
    feats, distinct = {}, set()
    for i in usable:
        if nontrivial(cases[int(i)], model[i]):
            distinct.add(texts[i].split('\n', 1)[1])
        for f in features(cases[int(i)], model[i], lst):
            feats[f] = feats.get(f, 0) + 1
    stats['distinct_nontrivial'] = len(distinct)
    stats['features'] = feats
    reported = 0
    # the implementation is run in chunks: once enough disagreements are reported the rest is skipped
    # (every crashing case costs a process restart and a symbolised sanitizer report)
    chunk = 400
    impl = {}
    todo = []
    for start in range(0, len(usable), chunk):
        part = usable[start:start + chunk]
        res = vlib.run_impl(binary, texts, part)
        if '__exit__' in res:
            ctx.violation(''.join(texts[i] for i in part[:50]), '%s: harness %s: %s at process exit' % (what, vname, res['__exit__'][0]), key='exit-leak')
            reported += 1
        impl.update(res)
        todo += part
        if sum(1 for i in todo if model[i] != impl.get(i, ['<missing>'])) >= max_reports:
            stats['stopped_early_after'] = len(todo)
            break
    for i in todo:
        stats['compared'] += 1
        a = model[i]
        b = impl.get(i, ['<missing>'])
        if a == b:
            continue
        stats['disagreements'] += 1
        if reported >= max_reports:
            continue
        reported += 1

        def still(c):
            t = case_text('0', c, lst, vname)
            m = vlib.run_model(oracle, t, driver='heter').get('0', ['error'])
            if 'error' in m:
                return False
            im = vlib.run_impl(binary, {'0': t}, ['0'], timeout=60).get('0', ['<missing>'])
            return m != im
        small = shrink(cases[int(i)], still, max_tests=150)
        t = case_text('0', small, lst, vname)
        m = vlib.run_model(oracle, t, driver='heter').get('0', [])
        mm = vlib.run_model('mech', t, driver='heter').get('0', [])
        sp = vlib.run_model('spec', t, driver='heter').get('0', [])
        im = vlib.run_impl(binary, {'0': t}, ['0'], timeout=60).get('0', [])
        d = vlib.first_diff(m, im)
        replay = t + ('# harness: %s (%s -std=%s %s)\n# model (mechanism with the facts tie A reads off the header now): %s\n'
                      '# spec  (pending-list specification)                           : %s\n# impl                                                           : %s\n') % (
            vname, VARIANTS[vname]['compiler'], VARIANTS[vname]['std'], ' '.join(VARIANTS[vname]['defs']), ' | '.join(mm), ' | '.join(sp), ' | '.join(im))
        ctx.violation(replay, '%s: implementation (%s) differs from the %s at trace line %s: expected `%s`, implementation `%s`'
                      % (what, vname, 'proved model' if oracle == 'mech' else 'specification (oracle; a proof obligation is broken)',
                         d[0] if d else '?', d[1] if d else '?', d[2] if d else '?'))
    return stats, model, texts, usable


def replay_file(ctx, path, build):
    """build(vname) -> binary"""
    cases = parse_case_text(open(path).read())
    bad = 0
    for k, case in enumerate(cases):
        vname = case.get('variant') if case.get('variant') in VARIANTS else ('excl1_c17' if case_list(case) == 1 else 'excl_g17')
        lst = VARIANTS[vname]['list']
        t = case_text(str(k), case, lst, vname)
        m = vlib.run_model('mech', t, driver='heter').get(str(k), ['error'])
        sp = vlib.run_model('spec', t, driver='heter').get(str(k), ['error'])
        print('model : ' + ' | '.join(m))
        print('spec  : ' + ' | '.join(sp))
        im = vlib.run_impl(build(vname), {str(k): t}, [str(k)], timeout=120).get(str(k), ['<missing>'])
        print('impl %s: %s' % (vname, ' | '.join(im)))
        ref = sp if 'error' in m else m
        if 'error' not in ref and ref != im:
            bad += 1
    return bad
