"""cl_domain.py — case generator, serialiser, shrinker and correspondence loop for
callback-list programs (domain `cl`: coq/CLModel.v, coq/CLSpec.v, harness/cl.cpp).

A case = dict(nl=int, cbs={(cb, activation): [cmd,...]}, main=[cmd,...]); a cmd is a
list of tokens, e.g. ['insert','0','7','5','9'].

Generator flavours (aimed at the case splits of the proofs):
  flat        C01: no callback bodies; handles live / removed / empty / repeated
  nested      C02: callback bodies that append/prepend/insert/remove (self, next, previous,
              outer current), re-invoke, enumerate; stale handles of pinned nodes
  restructure C10: copy/move/assign/swap/destroy/new in the main program
  wrap        C19: the generation counter is placed 0..3 steps before its maximum
  ledger      C08: `ledger` probes in main and in bodies, destroy at the end
"""
import vlib

NCB_MAX = 9      # callback ids 1..NCB_MAX


def case_text(cid, case):
    out = ['case %s' % cid, 'nl %d' % case['nl']]
    if case.get('fuel'):
        out.append('fuel %d' % case['fuel'])
    for (c, n) in sorted(case['cbs']):
        body = case['cbs'][(c, n)]
        out.append('cb %d %d : %s' % (c, n, ' ; '.join(' '.join(x) for x in body)))
    out.append('main : ' + ' ; '.join(' '.join(x) for x in case['main']))
    out.append('end')
    return '\n'.join(out) + '\n'


def parse_case_text(text):
    """inverse of case_text for a single case (used by --replay and the corpus)"""
    cases = []
    cur = None
    for line in text.splitlines():
        ws = line.split()
        if not ws or ws[0] == '#':
            continue
        if ws[0] == 'case':
            cur = {'nl': 1, 'cbs': {}, 'main': [], 'name': ws[1]}
            cases.append(cur)
        elif ws[0] == 'nl':
            cur['nl'] = int(ws[1])
        elif ws[0] == 'fuel':
            cur['fuel'] = int(ws[1])
        elif ws[0] == 'cb':
            cur['cbs'][(int(ws[1]), int(ws[2]))] = split_cmds(ws[4:])
        elif ws[0] == 'main':
            cur['main'] = split_cmds(ws[2:])
    return cases


def split_cmds(ws):
    out, cur = [], []
    for w in ws:
        if w == ';':
            if cur:
                out.append(cur)
            cur = []
        else:
            cur.append(w)
    if cur:
        out.append(cur)
    return out


class Gen:
    """tracks just enough abstract state to keep handle use legal (no foreign handles)."""

    def __init__(self, rng, flavour):
        self.r = rng
        self.flavour = flavour
        self.stats = {}

    def stat(self, k):
        self.stats[k] = self.stats.get(k, 0) + 1

    # registers of list l are l*100 + j
    def reg(self, l, j):
        return l * 100 + j

    def gen(self):
        r = self.r
        fl = self.flavour
        nl = 1 if fl in ('flat', 'nested', 'wrap') and r.chance(70) else r.range(2, 3)
        if fl == 'restructure':
            nl = r.range(2, 3)
        self.nl = nl
        self.nreg = [0] * 8           # registers handed out per list (namespace of the list's ORIGINAL group)
        # group bookkeeping for restructure flavour: which namespace does list l currently hold
        self.holds = list(range(nl))  # list slot -> namespace id (= group origin), or None if destroyed
        self.freed = set()
        self.next_ns = nl
        ncb = r.range(2, NCB_MAX)
        self.ncb = ncb
        case = {'nl': nl, 'cbs': {}, 'main': []}
        nested = fl in ('nested', 'wrap', 'ledger', 'restructure') and (fl != 'restructure' or r.chance(50))
        if fl == 'wrap' and r.chance(30):
            nested = False
        # main program
        n_main = r.range(6, 40) if fl != 'flat' else r.range(10, 80)
        wrap_at = r.below(n_main) if fl == 'wrap' else -1
        for i in range(n_main):
            if i == wrap_at:
                l = self.live_list()
                if l is not None:
                    case['main'].append(['setcur', str(l), str(r.below(4))])
                    self.stat('setcur')
            case['main'].append(self.main_cmd())
        if fl == 'wrap' and wrap_at >= 0:
            # make sure something is invoked after the wrap
            for l in range(nl):
                if self.holds[l] is not None:
                    case['main'].append(['invoke', str(l), str(r.range(1, 99))])
        # observation tail
        for l in range(nl):
            if self.holds[l] is not None:
                case['main'].append(['foreach', str(l)])
                case['main'].append(['empty', str(l)])
        if fl == 'ledger':
            case['main'].append(['ledger', str(ncb + 1)])
            for l in range(nl):
                if self.holds[l] is not None and r.chance(70):
                    case['main'].append(['destroy', str(l)])
                    self.holds[l] = None
                    case['main'].append(['ledger', str(ncb + 1)])
        # callback bodies
        if nested:
            for c in range(1, ncb + 1):
                if r.chance(65):
                    for n in range(1, r.range(1, 3) + 1):
                        if r.chance(75):
                            case['cbs'][(c, n)] = [self.body_cmd(c) for _ in range(r.range(1, 4))]
        return case

    def live_list(self):
        ls = [l for l in range(self.nl) if self.holds[l] is not None]
        return self.r.pick(ls) if ls else None

    def new_reg(self, l):
        ns = self.holds[l]
        j = self.nreg_ns(ns)
        return ns * 100 + j

    def nreg_ns(self, ns):
        while len(self.nreg) <= ns:
            self.nreg.append(0)
        j = self.nreg[ns]
        self.nreg[ns] = min(j + 1, 60)
        return j

    def some_reg(self, l, allow_empty=True):
        """a register of the namespace list l holds now (live, removed or never assigned),
        occasionally one of a freed namespace (expired handle)"""
        r = self.r
        ns = self.holds[l]
        while len(self.nreg) <= ns:
            self.nreg.append(0)
        n = self.nreg[ns]
        if self.freed and r.chance(8):
            fns = r.pick(sorted(self.freed))
            self.stat('handle_freed_group')
            return fns * 100 + r.below(max(1, self.nreg[fns] if fns < len(self.nreg) else 1))
        if allow_empty and (n == 0 or r.chance(7)):
            self.stat('handle_empty')
            return ns * 100 + 90 + r.below(3)       # never assigned: default-constructed handle
        return ns * 100 + r.below(n)

    def main_cmd(self):
        r = self.r
        fl = self.flavour
        l = self.live_list()
        if l is None:
            # everything destroyed: construct one
            dead = [x for x in range(self.nl) if self.holds[x] is None]
            d = r.pick(dead)
            self.holds[d] = self.next_ns
            self.next_ns += 1
            return ['new', str(d)]
        L = str(l)
        if fl == 'restructure' and r.chance(25):
            return self.restructure_cmd()
        kind = r.weighted([('append', 18), ('prepend', 10), ('insert', 16), ('remove', 16), ('owns', 6),
                           ('empty', 3), ('invoke', 14), ('foreach', 5), ('foreachif', 3), ('has', 3),
                           ('hasany', 2), ('removel', 4)] + ([('ledger', 8)] if fl == 'ledger' else []))
        self.stat('main_' + kind)
        if kind == 'append':
            return ['append', L, str(r.range(1, self.ncb)), str(self.new_reg(l))]
        if kind == 'prepend':
            return ['prepend', L, str(r.range(1, self.ncb)), str(self.new_reg(l))]
        if kind == 'insert':
            hb = self.some_reg(l)
            return ['insert', L, str(r.range(1, self.ncb)), str(hb), str(self.new_reg(l))]
        if kind == 'remove':
            return ['remove', L, str(self.some_reg(l))]
        if kind == 'owns':
            return ['owns', L, str(self.some_reg(l))]
        if kind == 'empty':
            return ['empty', L]
        if kind == 'invoke':
            return ['invoke', L, str(r.range(-50, 99))]
        if kind == 'foreach':
            return ['foreach', L]
        if kind == 'foreachif':
            return ['foreachif', L, str(r.below(5))]
        if kind == 'has':
            return ['has', L, str(r.range(1, self.ncb + 1))]
        if kind == 'hasany':
            return ['hasany', L]
        if kind == 'removel':
            return ['removel', L, str(r.range(1, self.ncb + 1))]
        return ['ledger', str(self.ncb + 1)]

    def restructure_cmd(self):
        r = self.r
        live = [x for x in range(self.nl) if self.holds[x] is not None]
        dead = [x for x in range(self.nl) if self.holds[x] is None]
        opts = []
        if live:
            opts += [('swap', 4), ('copyassign', 4), ('moveassign', 4)]
            if len(live) > 1 or dead:
                opts += [('destroy', 3)]
        if dead:
            opts += [('new', 3)]
            if live:
                opts += [('copyctor', 5), ('movector', 5)]
        kind = r.weighted(opts)
        self.stat('re_' + kind)
        if kind == 'swap':
            a, b = r.pick(live), r.pick(live)
            self.holds[a], self.holds[b] = self.holds[b], self.holds[a]
            return ['swap', str(a), str(b)]
        if kind == 'copyassign':
            s, d = r.pick(live), r.pick(live)
            if s != d:
                self.freed.add(self.holds[d])
                self.holds[d] = self.next_ns
                self.next_ns += 1
            return ['copyassign', str(s), str(d)]
        if kind == 'moveassign':
            s, d = r.pick(live), r.pick(live)
            if s != d:
                self.freed.add(self.holds[d])
                self.holds[d] = self.holds[s]
                self.holds[s] = self.next_ns
                self.next_ns += 1
            return ['moveassign', str(s), str(d)]
        if kind == 'destroy':
            d = r.pick(live)
            self.freed.add(self.holds[d])
            self.holds[d] = None
            return ['destroy', str(d)]
        if kind == 'new':
            d = r.pick(dead)
            self.holds[d] = self.next_ns
            self.next_ns += 1
            return ['new', str(d)]
        if kind == 'copyctor':
            s, d = r.pick(live), r.pick(dead)
            self.holds[d] = self.next_ns
            self.next_ns += 1
            return ['copyctor', str(s), str(d)]
        s, d = r.pick(live), r.pick(dead)
        self.holds[d] = self.holds[s]
        self.holds[s] = self.next_ns
        self.next_ns += 1
        return ['movector', str(s), str(d)]

    def body_cmd(self, c):
        """command run from inside callback c.  In flavours without restructuring the
        namespaces are fixed (list l holds namespace l) so any register of the list is legal;
        with restructuring bodies stay handle-free except for registers they fill themselves."""
        r = self.r
        fl = self.flavour
        if fl == 'restructure':
            l = r.below(self.nl)
            kind = r.weighted([('append', 5), ('prepend', 3), ('invoke', 2), ('empty', 1), ('foreach', 2), ('hasany', 1), ('removel', 3), ('has', 1)])
            L = str(l)
            if kind in ('append', 'prepend'):
                return [kind, L, str(r.range(1, self.ncb)), str(7000 + r.below(50))]
            if kind == 'invoke':
                return ['invoke', L, str(r.range(1, 99))]
            if kind in ('removel', 'has'):
                return [kind, L, str(r.range(1, self.ncb))]
            return [kind, L]
        l = r.below(self.nl)
        L = str(l)
        ns = l
        while len(self.nreg) <= ns:
            self.nreg.append(0)
        n = max(self.nreg[ns], 1)
        kind = r.weighted([('append', 12), ('prepend', 8), ('insert', 14), ('remove', 26), ('owns', 8), ('empty', 2),
                           ('invoke', 10), ('foreach', 5), ('foreachif', 2), ('has', 2), ('hasany', 1), ('removel', 5)]
                          + ([('ledger', 10)] if fl == 'ledger' else []))
        self.stat('body_' + kind)

        def hreg():
            if r.chance(6):
                return ns * 100 + 90 + r.below(3)
            return ns * 100 + r.below(n + 2)      # may name a register filled later or by another body
        if kind in ('append', 'prepend'):
            return [kind, L, str(r.range(1, self.ncb)), str(ns * 100 + r.below(n + 4))]
        if kind == 'insert':
            return ['insert', L, str(r.range(1, self.ncb)), str(hreg()), str(ns * 100 + r.below(n + 4))]
        if kind in ('remove', 'owns'):
            return [kind, L, str(hreg())]
        if kind == 'invoke':
            return ['invoke', L, str(r.range(100, 199))]
        if kind == 'foreachif':
            return ['foreachif', L, str(r.below(4))]
        if kind in ('has', 'removel'):
            return [kind, L, str(r.range(1, self.ncb))]
        if kind == 'ledger':
            return ['ledger', str(self.ncb + 1)]
        return [kind, L]


def nontrivial(case, trace):
    """a case counts as non-trivial when its model trace has at least 3 calls/visits and
    at least one boolean result"""
    calls = sum(1 for l in trace if l.startswith('call') or l.startswith('visit'))
    rets = sum(1 for l in trace if l.startswith('ret'))
    return calls >= 3 and rets >= 1


def trace_features(case, trace):
    f = set()
    if any(l == 'ret 0' for l in trace):
        f.add('ret0')
    if any(l == 'ret 1' for l in trace):
        f.add('ret1')
    if case['cbs']:
        f.add('nested')
    depth_ops = set(c[0] for body in case['cbs'].values() for c in body)
    for o in depth_ops:
        f.add('body_' + o)
    for c in case['main']:
        if c[0] in ('copyctor', 'copyassign', 'movector', 'moveassign', 'swap', 'destroy', 'setcur'):
            f.add(c[0])
    return f


def shrink(case, still_fails, max_tests=400):
    """greedy delta debugging on main commands, callback entries and body commands"""
    tests = [0]

    def ok(c):
        tests[0] += 1
        if tests[0] > max_tests:
            return False
        try:
            return still_fails(c)
        except Exception:
            return False

    cur = {'nl': case['nl'], 'cbs': dict(case['cbs']), 'main': list(case['main'])}
    if case.get('fuel'):
        cur['fuel'] = case['fuel']
    changed = True
    while changed and tests[0] <= max_tests:
        changed = False
        # chunks of main
        n = len(cur['main'])
        size = max(1, n // 2)
        while size >= 1:
            i = 0
            while i < len(cur['main']):
                cand = dict(cur)
                cand['main'] = cur['main'][:i] + cur['main'][i + size:]
                if cand['main'] and ok(cand):
                    cur = cand
                    changed = True
                else:
                    i += size
            size //= 2
        for key in sorted(cur['cbs']):
            cand = dict(cur)
            cand['cbs'] = {k: v for k, v in cur['cbs'].items() if k != key}
            if ok(cand):
                cur = cand
                changed = True
                continue
            body = cur['cbs'][key]
            j = 0
            while j < len(body) and len(body) > 1:
                nb = body[:j] + body[j + 1:]
                cand = dict(cur)
                cand['cbs'] = dict(cur['cbs'])
                cand['cbs'][key] = nb
                if ok(cand):
                    cur = cand
                    body = nb
                    changed = True
                else:
                    j += 1
    return cur


def correspond(ctx, binaries, cases, keep=lambda l: True, model_domain='cl', what='callback list',
               spec_domain='cl-spec', spec_keep=None, equiv=None):
    """runs model and implementation(s) on the cases; returns stats.  On a disagreement the
    case is shrunk and reported as a violation (the model is proved to refine the spec, so an
    implementation trace that differs from the model's contradicts the spec on that input;
    the spec's own trace is attached to the replay)."""
    ids = [str(i) for i in range(len(cases))]
    texts = {i: case_text(i, cases[int(i)]) for i in ids}
    model = vlib.run_model(model_domain, ''.join(texts[i] for i in ids))
    usable = [i for i in ids if 'error' not in model.get(i, ['error'])]
    stats = {'generated': len(cases), 'model_error_discarded': len(ids) - len(usable), 'compared': 0, 'disagreements': 0}
    feats = {}
    distinct = set()
    for i in usable:
        tr = model[i]
        if nontrivial(cases[int(i)], tr):
            distinct.add(texts[i].split('\n', 1)[1])
        for f in trace_features(cases[int(i)], tr):
            feats[f] = feats.get(f, 0) + 1
    stats['distinct_nontrivial'] = len(distinct)
    stats['features'] = feats
    reported = 0
    for bname, binary in binaries.items():
        impl = vlib.run_impl(binary, texts, usable)
        if '__exit__' in impl:
            ctx.violation(''.join(texts[i] for i in usable[:50]), '%s: harness %s: %s at process exit (not attributable to one case)' % (what, bname, impl['__exit__'][0]), no_input=False, key='exit-leak')
            reported += 1
        for i in usable:
            stats['compared'] += 1
            a = vlib.filt(model[i], keep)
            b = vlib.filt(impl.get(i, ['<missing>']), lambda l: keep(l) or l.startswith('CRASH') or l.startswith('HANG'))
            if a == b or (equiv is not None and equiv(a, b, texts[i])):
                continue
            stats['disagreements'] += 1
            if reported >= 3:
                continue
            reported += 1
            case = cases[int(i)]

            def still(c, binary=binary):
                t = case_text('0', c)
                m = vlib.run_model(model_domain, t).get('0', ['error'])
                if 'error' in m:
                    return False
                im = vlib.run_impl(binary, {'0': t}, ['0'], timeout=60).get('0', ['<missing>'])
                fm, fi = vlib.filt(m, keep), vlib.filt(im, lambda l: keep(l) or l.startswith('CRASH') or l.startswith('HANG'))
                return fm != fi and not (equiv is not None and equiv(fm, fi, t))
            hung = any(l.startswith('HANG') for l in impl.get(i, []))
            small = shrink(case, still, max_tests=40 if hung else 400)
            t = case_text('0', small)
            m = vlib.run_model(model_domain, t).get('0', [])
            im = vlib.run_impl(binary, {'0': t}, ['0'], timeout=60).get('0', [])
            sp = vlib.run_model(spec_domain, t).get('0', []) if spec_domain else []
            d = vlib.first_diff(vlib.filt(m, keep), vlib.filt(im, lambda l: keep(l) or l.startswith('CRASH') or l.startswith('HANG')))
            replay = t + '# harness: %s\n# model   : %s\n# spec    : %s\n# impl    : %s\n' % (bname, ' | '.join(m), ' | '.join(sp), ' | '.join(im))
            ctx.violation(replay, '%s: implementation (%s) differs from the proved model at trace line %s: model `%s`, implementation `%s`' % (what, bname, d[0] if d else '?', d[1] if d else '?', d[2] if d else '?'))
    return stats, model, texts, usable


def replay_file(ctx, path, binaries, keep=lambda l: True, model_domain='cl'):
    text = open(path).read()
    cases = parse_case_text(text)
    bad = 0
    for k, case in enumerate(cases):
        t = case_text(str(k), case)
        m = vlib.run_model(model_domain, t).get(str(k), ['error'])
        print('model : ' + ' | '.join(m))
        for bname, binary in binaries.items():
            im = vlib.run_impl(binary, {str(k): t}, [str(k)], timeout=120).get(str(k), ['<missing>'])
            print('impl %s: %s' % (bname, ' | '.join(im)))
            if 'error' not in m and vlib.filt(m, keep) != vlib.filt(im, lambda l: keep(l) or l.startswith('CRASH') or l.startswith('HANG')):
                bad += 1
    return bad
