"""autoremove_domain.py — case generator, serialiser, shrinker and correspondence loop for
CounterRemover / ConditionalRemover programs (domain `autoremove`: coq/AutoRemoveModel.v,
harness/autoremove.cpp, ocaml/driver_autoremove.ml).

case = dict(target='list'|'disp'|'queue'|'hlist'|'hdisp', helpers='temp'|'kept',
            cbs={(c,n): [cmd]}, conds={(p,n): 0|1}, main=[cmd])
commands (token lists):
  append k c h | prepend k c h | insert k c hb h                    plain listener c of key k, handle -> register h
  cappend k c n h | cprepend k c n h | cinsert k c hb n h           through counterRemover, trigger count n
  qappend k c p w h | qprepend k c p w h | qinsert k c hb p w h     through conditionalRemover, condition p, w: takes the argument
  remove k h | dispatch k a | enqueue k a | process | drophelper h

keys: list: 0; disp/queue: events 0..2; hlist: prototype index 0..1; hdisp: 2*event + prototype index.
A conditional wrapper accepts any argument list, so a heterogeneous target files it under its
first prototype: the generator adds conditional entries to even keys only there.
registers of key k are k*100 + j.  helpers=temp: the helper object is a temporary (destroyed
at the end of the adding statement; the generator writes `drophelper h` right after the add
so that model and harness agree on the moment); helpers=kept: it lives until `drophelper h`."""
import vlib

INT_MIN = -2147483648
INT_MAX = 2147483647
COUNTS = [INT_MIN + 1, -3, -1, 0, 1, 2, 3, 7]
NCB = 6
NP = 4
TARGETS = ('list', 'disp', 'queue', 'hlist', 'hdisp')
ADDS = {'append': 'p', 'prepend': 'p', 'insert': 'p', 'cappend': 'c', 'cprepend': 'c', 'cinsert': 'c',
        'qappend': 'q', 'qprepend': 'q', 'qinsert': 'q'}


def case_text(cid, case):
    out = ['case %s' % cid, 'target %s' % case['target'], 'helpers %s' % case['helpers']]
    if case.get('fuel'):
        out.append('fuel %d' % case['fuel'])
    for (c, n) in sorted(case['cbs']):
        out.append('cb %d %d : %s' % (c, n, ' ; '.join(' '.join(x) for x in case['cbs'][(c, n)])))
    for (p, n) in sorted(case['conds']):
        out.append('cond %d %d %d' % (p, n, case['conds'][(p, n)]))
    out.append('main : ' + ' ; '.join(' '.join(x) for x in case['main']))
    out.append('end')
    return '\n'.join(out) + '\n'


def split_cmds(ws):
    out, cur = [], []
    for w in ws:
        if w == ';':
            if cur:
                out.append(cur)
            cur = []
        else:
            cur.append(w)
    if cur:
        out.append(cur)
    return out


def parse_case_text(text):
    cases, cur = [], None
    for line in text.splitlines():
        ws = line.split()
        if not ws or ws[0].startswith('#'):
            continue
        if ws[0] == 'case':
            cur = {'target': 'list', 'helpers': 'temp', 'cbs': {}, 'conds': {}, 'main': [], 'name': ws[1]}
            cases.append(cur)
        elif cur is None:
            continue
        elif ws[0] == 'target':
            cur['target'] = ws[1]
        elif ws[0] == 'helpers':
            cur['helpers'] = ws[1]
        elif ws[0] == 'fuel':
            cur['fuel'] = int(ws[1])
        elif ws[0] == 'cb':
            cur['cbs'][(int(ws[1]), int(ws[2]))] = split_cmds(ws[4:])
        elif ws[0] == 'cond':
            cur['conds'][(int(ws[1]), int(ws[2]))] = int(ws[3])
        elif ws[0] == 'main':
            cur['main'] = split_cmds(ws[2:])
    return cases


class Gen:
    def __init__(self, rng, target=None):
        self.r = rng
        self.target = target or rng.pick(TARGETS)
        self.helpers = 'kept' if rng.chance(45) else 'temp'
        self.stats = {}
        self.nreg = {}
        self.wregs = []        # registers that hold wrapper entries

    def stat(self, k):
        self.stats[k] = self.stats.get(k, 0) + 1

    def keys(self):
        return {'list': [0], 'disp': [0, 1, 2], 'queue': [0, 1, 2], 'hlist': [0, 1], 'hdisp': [0, 1, 2, 3]}[self.target]

    def key(self):
        ks = self.keys()
        return ks[0] if self.r.chance(55) else self.r.pick(ks)

    def cond_key(self, k):
        if self.target == 'hlist':
            return 0
        if self.target == 'hdisp':
            return k - (k % 2)
        return k

    def hreg(self, k, new=False):
        n = self.nreg.get(k, 0)
        if new:
            self.nreg[k] = min(n + 1, 40)
            return k * 100 + n
        if n == 0 or self.r.chance(6):
            return k * 100 + 90 + self.r.below(2)      # a register never assigned
        return k * 100 + self.r.below(n)

    def count(self):
        r = self.r
        x = r.below(100)
        if x < 75:
            return r.pick(COUNTS)
        if x < 95:
            return r.range(-4, 6)
        return r.pick([INT_MAX, INT_MAX - 1, INT_MIN + 2, INT_MIN, INT_MIN])

    def add(self, kind, depth):
        """returns a list of commands: the add and, for temporary helpers, the drop"""
        r = self.r
        k = self.key()
        form = r.weighted([('append', 60), ('prepend', 20), ('insert', 20)])
        c = r.range(1, NCB)
        if kind == 'q':
            k = self.cond_key(k)
        before = [str(self.hreg(k))] if form == 'insert' else []
        h = self.hreg(k, new=True)
        if kind == 'p':
            self.stat('add_plain')
            return [[form, str(k), str(c)] + before + [str(h)]]
        if kind == 'c':
            n = self.count()
            self.stat('add_counter')
            self.stat('count_' + ('int_min' if n == INT_MIN else 'int_min_plus_1' if n == INT_MIN + 1 else 'neg' if n < 0 else 'zero' if n == 0 else 'one' if n == 1 else 'big' if n > 1000 else 'many'))
            cmd = ['c' + form, str(k), str(c)] + before + [str(n), str(h)]
        else:
            w = 1 if r.chance(55) else 0
            self.stat('add_cond_' + ('arg' if w else 'noarg'))
            cmd = ['q' + form, str(k), str(c)] + before + [str(r.range(1, NP)), str(w), str(h)]
        self.wregs.append(h)
        if self.helpers == 'temp':
            return [cmd, ['drophelper', str(h)]]
        if r.chance(40):
            return [cmd, ['drophelper', str(h)]]
        return [cmd]

    def cmds(self, depth):
        r = self.r
        w = [('dispatch', 34), ('cadd', 12), ('qadd', 9), ('padd', 5), ('remove', 7)]
        if self.target == 'queue':
            w += [('enqueue', 14), ('process', 8)]
        if self.helpers == 'kept' and self.wregs:
            w += [('drophelper', 5)]
        if depth > 0:
            w = [(k, (v if k in ('dispatch', 'remove', 'enqueue') else max(1, v // 2))) for k, v in w]
        kind = r.weighted(w)
        self.stat(('body_' if depth else 'main_') + kind)
        if kind in ('cadd', 'qadd', 'padd'):
            return self.add(kind[0], depth)
        k = self.key()
        if kind == 'remove':
            return [['remove', str(k), str(self.hreg(k))]]
        if kind in ('dispatch', 'enqueue'):
            return [[kind, str(k), str(r.range(1, 99))]]
        if kind == 'drophelper':
            return [['drophelper', str(r.pick(self.wregs))]]
        return [[kind]]

    def gen(self):
        r = self.r
        case = {'target': self.target, 'helpers': self.helpers, 'cbs': {}, 'conds': {}, 'main': []}
        for _ in range(r.range(1, 4)):
            case['main'] += self.add(r.weighted([('c', 50), ('q', 35), ('p', 15)]), 0)
        for _ in range(r.range(6, 30)):
            case['main'] += self.cmds(0)
        # observe what is still attached
        for k in self.keys():
            if self.nreg.get(k):
                case['main'].append(['dispatch', str(k), '100'])
        if self.target == 'queue':
            case['main'].append(['process'])
        if r.chance(75):
            for c in range(1, NCB + 1):
                if r.chance(50):
                    for n in range(1, r.range(1, 3) + 1):
                        if r.chance(70):
                            body = []
                            for _ in range(r.range(1, 2)):
                                body += self.cmds(1)
                            case['cbs'][(c, n)] = body
        for p in range(1, NP + 1):
            for n in range(1, r.range(2, 7)):
                case['conds'][(p, n)] = 1 if r.chance(30) else 0
        return case


def all_cmds(case):
    for c in case['main']:
        yield c
    for body in case['cbs'].values():
        for c in body:
            yield c


def nontrivial(case, trace):
    calls = sum(1 for l in trace if l.startswith('call'))
    return calls >= 2 and any(ADDS.get(c[0]) in ('c', 'q') for c in all_cmds(case))


def features(case, trace):
    f = {'target_' + case['target'], 'helpers_' + case['helpers']}
    if case['cbs']:
        f.add('nested')
    for body in case['cbs'].values():
        for c in body:
            f.add('body_' + c[0])
    for c in all_cmds(case):
        kind = ADDS.get(c[0])
        if kind == 'c':
            n = int(c[-2])
            f.add('counter_n_le_0' if n <= 0 else 'counter_n_1' if n == 1 else 'counter_n_gt_1')
            if n == INT_MIN:
                f.add('counter_n_int_min')
            if c[0] == 'cinsert':
                f.add('counter_insert')
        elif kind == 'q':
            f.add('cond_with_arg' if c[-2] == '1' else 'cond_without_arg')
        elif c[0] == 'process':
            f.add('queued')
    if any(l.startswith('cond') and l.endswith(' 1') for l in trace):
        f.add('cond_fired')
    if 'ret 1' in trace:
        f.add('ret_true')
    return f


def shrink(case, still_fails, max_tests=300):
    tests = [0]

    def ok(c):
        tests[0] += 1
        if tests[0] > max_tests:
            return False
        try:
            return still_fails(c)
        except Exception:
            return False
    cur = {'target': case['target'], 'helpers': case['helpers'], 'cbs': dict(case['cbs']), 'conds': dict(case['conds']), 'main': list(case['main'])}
    changed = True
    while changed and tests[0] <= max_tests:
        changed = False
        size = max(1, len(cur['main']) // 2)
        while size >= 1:
            i = 0
            while i < len(cur['main']):
                cand = dict(cur)
                cand['main'] = cur['main'][:i] + cur['main'][i + size:]
                if cand['main'] and ok(cand):
                    cur = cand
                    changed = True
                else:
                    i += size
            size //= 2
        for key in sorted(cur['cbs']):
            cand = dict(cur)
            cand['cbs'] = {k: v for k, v in cur['cbs'].items() if k != key}
            if ok(cand):
                cur = cand
                changed = True
                continue
            body = cur['cbs'][key]
            for j in range(len(body)):
                if len(body) > 1:
                    cand = dict(cur)
                    cand['cbs'] = dict(cur['cbs'])
                    cand['cbs'][key] = body[:j] + body[j + 1:]
                    if ok(cand):
                        cur = cand
                        changed = True
                        break
        for key in sorted(cur['conds']):
            cand = dict(cur)
            cand['conds'] = {k: v for k, v in cur['conds'].items() if k != key}
            if ok(cand):
                cur = cand
                changed = True
        if cur['helpers'] == 'kept':
            cand = dict(cur)
            cand['helpers'] = 'temp'
            if ok(cand):
                cur = cand
                changed = True
    return cur


def run_model(mode, text):
    return vlib.run_model(mode, text, driver='autoremove')


def correspond(ctx, binaries, cases, oracle='model', what='CounterRemover/ConditionalRemover', max_reports=3, chunk=400):
    ids = [str(i) for i in range(len(cases))]
    texts = {i: case_text(i, cases[int(i)]) for i in ids}
    alltext = ''.join(texts[i] for i in ids)
    model = run_model(oracle, alltext)
    other = run_model('spec' if oracle == 'model' else 'model', alltext)
    usable = [i for i in ids if 'error' not in model.get(i, ['error'])]
    stats = {'generated': len(cases), 'model_error_discarded': len(ids) - len(usable), 'compared': 0, 'disagreements': 0,
             'model_vs_spec_differences': sum(1 for i in usable if model[i] != other.get(i)),
             'model_overflow_flagged': sum(1 for i in usable if 'overflow' in model[i])}
    feats, distinct = {}, set()
    for i in usable:
        if nontrivial(cases[int(i)], model[i]):
            distinct.add(texts[i].split('\n', 1)[1])
        for f in features(cases[int(i)], model[i]):
            feats[f] = feats.get(f, 0) + 1
    stats['distinct_nontrivial'] = len(distinct)
    stats['features'] = feats
    reported = 0
    # in chunks: once enough disagreements have been reported (a broken tree may crash on every
    # other case, and every crash restarts the harness) the rest of the stream is not run
    chunks = [(bname, binary, usable[j:j + chunk]) for bname, binary in binaries.items() for j in range(0, len(usable), chunk)]
    for bname, binary, part in chunks:
        if reported >= max_reports:
            stats['not_run_after_reports'] = stats.get('not_run_after_reports', 0) + len(part)
            continue
        impl = vlib.run_impl(binary, texts, part)
        if '__exit__' in impl:
            ctx.violation(''.join(texts[i] for i in part[:50]), '%s: harness %s: %s at process exit' % (what, bname, impl['__exit__'][0]), key='exit-leak')
            reported += 1
        for i in part:
            stats['compared'] += 1
            a = model[i]
            b = impl.get(i, ['<missing>'])
            if a == b:
                continue
            stats['disagreements'] += 1
            if reported >= max_reports:
                continue
            reported += 1

            def still(c, binary=binary):
                t = case_text('0', c)
                m = run_model(oracle, t).get('0', ['error'])
                if 'error' in m:
                    return False
                im = vlib.run_impl(binary, {'0': t}, ['0'], timeout=60).get('0', ['<missing>'])
                return m != im
            small = shrink(cases[int(i)], still)
            t = case_text('0', small)
            m = run_model('model', t).get('0', [])
            sp = run_model('spec', t).get('0', [])
            im = vlib.run_impl(binary, {'0': t}, ['0'], timeout=60).get('0', [])
            exp = m if oracle == 'model' else sp
            d = vlib.first_diff(exp, im)
            replay = t + '# harness: %s\n# model (wrappers as generated from the headers): %s\n# spec  (wrappers as C16 promises them)       : %s\n# impl                                          : %s\n' % (
                bname, ' | '.join(m), ' | '.join(sp), ' | '.join(im))
            ctx.violation(replay, '%s: implementation (%s) differs from the %s at trace line %s: expected `%s`, implementation `%s`'
                          % (what, bname, 'proved model' if oracle == 'model' else 'specification (oracle; a proof obligation is broken or a leaf is untranslatable)',
                             d[0] if d else '?', d[1] if d else '?', d[2] if d else '?'))
    return stats, model, texts, usable


def replay_file(ctx, path, binaries):
    cases = parse_case_text(open(path).read())
    bad = 0
    for k, case in enumerate(cases):
        t = case_text(str(k), case)
        m = run_model('model', t).get(str(k), ['error'])
        sp = run_model('spec', t).get(str(k), ['error'])
        print('model : ' + ' | '.join(m))
        print('spec  : ' + ' | '.join(sp))
        for bname, binary in binaries.items():
            im = vlib.run_impl(binary, {str(k): t}, [str(k)], timeout=120).get(str(k), ['<missing>'])
            print('impl %s: %s' % (bname, ' | '.join(im)))
            if 'error' not in sp and sp != im:
                bad += 1
    return bad
