#!/usr/bin/env python3
"""leafgen.py — tie A: regenerate coq/gen/*.v from /repo's working tree.

For a fixed list of small leaf constructs of the headers (boolean conditions,
tiny bodies, structural facts) the clang AST (clang++ -Xclang -ast-dump=json) is
translated to Gallina.  The hand-written models IMPORT these definitions for
exactly those decisions, so the theorems are re-checked against what the headers
say now.  A construct outside the supported subset is not guessed: the leaf is
reported as failed, nothing is written for it, and the dependent .vo fails.

Leaf translators live in tools/leaves/*.py (each exports LEAVES = [(name, fn)];
fn(out) fills out[<file name under coq/gen>] = <Gallina text> or raises Untranslatable).

usage: leafgen.py [--json] [--only name,name]    (writes only files whose content changed)"""
import hashlib
import importlib
import json
import os
import sys

sys.path.insert(0, os.path.dirname(os.path.abspath(__file__)))
from leafcore import GEN, Untranslatable  # noqa: E402


def all_leaves():
    out = []
    d = os.path.join(os.path.dirname(os.path.abspath(__file__)), 'leaves')
    for f in sorted(os.listdir(d)):
        if f.endswith('.py') and not f.startswith('_'):
            mod = importlib.import_module('leaves.' + f[:-3])
            out += list(mod.LEAVES)
    return out


def main():
    os.makedirs(GEN, exist_ok=True)
    only = None
    if '--only' in sys.argv:
        only = set(sys.argv[sys.argv.index('--only') + 1].split(','))
    info = {'leaves': {}, 'failed': []}
    for name, fn in all_leaves():
        if only is not None and name not in only:
            continue
        out = {}
        try:
            fn(out)
        except Untranslatable as e:
            info['failed'].append('%s: %s' % (name, e))
            continue
        except Exception as e:   # translator bug: treated as untranslatable, never as success
            info['failed'].append('%s: translator error %r' % (name, e))
            continue
        for fname, text in out.items():
            path = os.path.join(GEN, fname)
            old = open(path).read() if os.path.exists(path) else None
            if old != text:
                with open(path, 'w') as fh:
                    fh.write(text)
            info['leaves'][fname] = hashlib.sha256(text.encode()).hexdigest()[:16]
    if '--json' in sys.argv:
        print(json.dumps(info))
    else:
        for k, v in info['leaves'].items():
            print('generated %s %s' % (k, v))
        for f in info['failed']:
            print('FAILED ' + f)
    return 1 if info['failed'] else 0


if __name__ == '__main__':
    sys.exit(main())
