#!/usr/bin/env python3
"""leafgen.py — tie A: regenerate coq/gen/*.v from /repo's working tree.

For a fixed list of small leaf constructs of the headers (boolean conditions,
tiny bodies, structural facts) the clang AST (clang++ -Xclang -ast-dump=json) is
translated to Gallina.  The hand-written models IMPORT these definitions for
exactly those decisions, so the theorems are re-checked against what the headers
say now.  A construct outside the supported subset is not guessed: the leaf is
reported as failed, nothing is written for it, and the dependent .vo fails.

usage: leafgen.py [--json]     (writes only files whose content changed)"""
import hashlib
import json
import os
import re
import subprocess
import sys

ROOT = '/verif'
REPO = '/repo'
GEN = os.path.join(ROOT, 'coq', 'gen')
INC = os.path.join(REPO, 'include')


class Untranslatable(Exception):
    pass


def clang_ast(tu_text, filt, std='c++17'):
    """returns the list of JSON trees clang dumps for declarations matching the filter"""
    os.makedirs(os.path.join(ROOT, 'build'), exist_ok=True)
    tu = os.path.join(ROOT, 'build', 'leafgen_tu_%d.cpp' % os.getpid())
    with open(tu, 'w') as fh:
        fh.write(tu_text)
    try:
        p = subprocess.run(['clang++', '-std=' + std, '-I' + INC, '-fsyntax-only', '-Xclang', '-ast-dump=json',
                            '-Xclang', '-ast-dump-filter=' + filt, tu],
                           stdout=subprocess.PIPE, stderr=subprocess.PIPE, universal_newlines=True, timeout=300)
    finally:
        try:
            os.unlink(tu)
        except OSError:
            pass
    if p.returncode != 0:
        raise Untranslatable('clang failed on filter %s: %s' % (filt, p.stderr[-400:]))
    out = p.stdout
    trees = []
    dec = json.JSONDecoder()
    i = 0
    while True:
        j = out.find('{', i)
        if j < 0:
            break
        # skip "Dumping xxx:" lines
        try:
            obj, end = dec.raw_decode(out, j)
        except ValueError:
            break
        trees.append(obj)
        i = end
    return trees


def walk(n):
    yield n
    for c in n.get('inner', []) or []:
        if isinstance(c, dict):
            yield from walk(c)


def strip(n):
    """skip wrappers that do not change the value"""
    while n.get('kind') in ('ImplicitCastExpr', 'ParenExpr', 'ExprWithCleanups', 'MaterializeTemporaryExpr',
                            'CXXBindTemporaryExpr', 'ConstantExpr', 'CXXFunctionalCastExpr', 'CXXStaticCastExpr',
                            'SubstNonTypeTemplateParmExpr'):
        inner = [c for c in n.get('inner', []) if isinstance(c, dict)]
        if len(inner) != 1:
            break
        n = inner[0]
    return n


def kids(n):
    return [c for c in n.get('inner', []) or [] if isinstance(c, dict) and c.get('kind')]


def find_function(trees, name, pred=None):
    """first function/method declaration named `name` that has a body"""
    for t in trees:
        for n in walk(t):
            if n.get('kind') in ('CXXMethodDecl', 'FunctionDecl', 'CXXConstructorDecl', 'CXXDestructorDecl') and n.get('name') == name:
                body = [c for c in kids(n) if c.get('kind') == 'CompoundStmt']
                if body and (pred is None or pred(n)):
                    return n, body[0]
    raise Untranslatable('function %s not found' % name)


# ----------------------------------------------------------------------------------------
# expression translation: atoms are named by a caller-supplied function

BINOPS = {'&&': 'andb', '||': 'orb'}
CMPOPS = {'==': ('N.eqb', False), '!=': ('N.eqb', True), '<': ('N.ltb', False), '<=': ('N.leb', False),
          '>': ('N.ltb', 'swap'), '>=': ('N.leb', 'swap')}


class Tr:
    def __init__(self, atom, cmp_scope='N'):
        self.atom = atom          # node -> Gallina term or None
        self.scope = cmp_scope

    def expr(self, n):
        n = strip(n)
        a = self.atom(n)
        if a is not None:
            return a
        k = n.get('kind')
        if k == 'BinaryOperator' or (k == 'CXXOperatorCallExpr' and len(kids(n)) == 3):
            if k == 'BinaryOperator':
                op = n.get('opcode')
                l, r = kids(n)
            else:
                cs = kids(n)
                fn = strip(cs[0])
                m = re.match(r'operator(.+)', fn.get('referencedDecl', {}).get('name', ''))
                if not m:
                    raise Untranslatable('operator call without name')
                op = m.group(1)
                l, r = cs[1], cs[2]
            if op in BINOPS:
                return '(%s %s %s)' % (BINOPS[op], self.expr(l), self.expr(r))
            if op in CMPOPS:
                f, mode = CMPOPS[op]
                f = f.replace('N.', self.scope + '.')
                le, re_ = self.expr(l), self.expr(r)
                if mode == 'swap':
                    return '(%s %s %s)' % (f, re_, le)
                if mode is True:
                    return '(negb (%s %s %s))' % (f, le, re_)
                return '(%s %s %s)' % (f, le, re_)
            raise Untranslatable('binary operator %s' % op)
        if k == 'UnaryOperator' and n.get('opcode') == '!':
            return '(negb %s)' % self.expr(kids(n)[0])
        if k == 'IntegerLiteral':
            return '%s%%%s' % (n.get('value'), self.scope)
        if k == 'CXXBoolLiteralExpr':
            return 'true' if n.get('value') else 'false'
        raise Untranslatable('expression kind %s' % k)


def member_name(n):
    n = strip(n)
    if n.get('kind') == 'MemberExpr':
        return n.get('name')
    if n.get('kind') == 'CXXDependentScopeMemberExpr':
        return n.get('member')
    if n.get('kind') == 'DeclRefExpr':
        return n.get('referencedDecl', {}).get('name')
    return None


def find_all(n, kind):
    return [x for x in walk(n) if x.get('kind') == kind]


# ----------------------------------------------------------------------------------------
# leaves

def leaf_cl(out):
    """callbacklist.h : the visit condition of doForEachIf, the wrap branch of getNextCounter,
    the removed-marker guards of remove / insert / ownsHandle"""
    tu = '#include "eventpp/callbacklist.h"\ntemplate class eventpp::CallbackList<void(int)>;\n'
    trees = clang_ast(tu, 'CallbackListBase')

    # --- visit condition: the `if` inside the while loop of doForEachIf
    fn, body = find_function(trees, 'doForEachIf')
    whiles = find_all(body, 'WhileStmt')
    if len(whiles) != 1:
        raise Untranslatable('doForEachIf: expected one while loop')
    wbody = kids(whiles[0])[-1]
    ifs = [s for s in kids(wbody) if s.get('kind') == 'IfStmt']
    if len(ifs) != 1:
        raise Untranslatable('doForEachIf: expected one if in the loop body')
    cond = kids(ifs[0])[0]

    def atom(n):
        nm = member_name(n)
        if n.get('kind') in ('MemberExpr', 'CXXDependentScopeMemberExpr') and nm == 'counter':
            return 'node_ctr'
        if n.get('kind') == 'DeclRefExpr' and nm == 'counter':
            return 'captured'
        if n.get('kind') == 'DeclRefExpr' and nm == 'removedCounter':
            return 'removed_marker'
        return None
    visit = Tr(atom).expr(cond)
    # position of the step `node = node->next` relative to the visit: must be after the if
    stmts = kids(wbody)
    idx_if = stmts.index(ifs[0])
    step_after = any(('next' == (member_name(x) or '')) for s in stmts[idx_if + 1:] for x in walk(s))
    step_before = any(('next' == (member_name(x) or '')) for s in stmts[:idx_if] for x in walk(s))
    if not step_after or step_before:
        raise Untranslatable('doForEachIf: the step node=node->next is not after the visit')

    # removed marker value
    removed_val = None
    for t in trees:
        for n in walk(t):
            if n.get('kind') == 'EnumConstantDecl' and n.get('name') == 'removedCounter':
                lits = find_all(n, 'IntegerLiteral')
                if lits:
                    removed_val = lits[0].get('value')
    if removed_val is None:
        raise Untranslatable('removedCounter value not found')

    # --- wrap branch of getNextCounter: `if(result == K)`, nodes rewritten to V
    fn, body = find_function(trees, 'getNextCounter')
    ifs = [s for s in kids(body) if s.get('kind') == 'IfStmt']
    if len(ifs) != 1:
        raise Untranslatable('getNextCounter: expected one if')

    def atom2(n):
        if n.get('kind') == 'DeclRefExpr' and member_name(n) == 'result':
            return 'result'
        return None
    wrap_test = Tr(atom2).expr(kids(ifs[0])[0])
    then = kids(ifs[0])[1]
    assigns = [x for x in walk(then) if x.get('kind') == 'BinaryOperator' and x.get('opcode') == '='
               and member_name(kids(x)[0]) == 'counter']
    if len(assigns) != 1:
        raise Untranslatable('getNextCounter: expected one counter rewrite in the wrap branch')
    rv = strip(kids(assigns[0])[1])
    if rv.get('kind') != 'IntegerLiteral':
        raise Untranslatable('getNextCounter: rewrite value is not a literal')
    rewrite_val = rv.get('value')
    # second draw inside the branch
    incs = [x for x in walk(then) if x.get('kind') in ('UnaryOperator', 'CXXOperatorCallExpr')
            and (x.get('opcode') == '++' or any((strip(c).get('referencedDecl', {}) or {}).get('name') == 'operator++' for c in kids(x)))]
    second_draw = len(incs) >= 1
    # loop walks from head through next
    walks_next = any(member_name(x) == 'next' for x in walk(then)) and any(member_name(x) == 'head' for x in walk(then))
    if not walks_next:
        raise Untranslatable('getNextCounter: wrap loop does not walk head->next')

    # --- guards: is the unlink in remove / the walk in ownsHandle / doInsert in insert guarded by counter != removedCounter
    def guarded(fname, callee):
        fn, body = find_function(trees, fname)
        for i in find_all(body, 'IfStmt'):
            cond = kids(i)[0]
            names = set(member_name(x) for x in walk(cond))
            if 'counter' in names and 'removedCounter' in names:
                # the guarded action must be inside this if's then-branch
                then = kids(i)[1]
                if callee is None or any(member_name(x) == callee or (x.get('kind') == 'UnresolvedMemberExpr' and x.get('name') == callee)
                                         or (x.get('kind') == 'UnresolvedLookupExpr' and x.get('name') == callee) for x in walk(then)):
                    # and the test must be an inequality
                    txt = Tr(lambda n: ('node_ctr' if member_name(n) == 'counter' and n.get('kind') != 'DeclRefExpr' else
                                        ('removed_marker' if member_name(n) == 'removedCounter' else
                                         ('true' if n.get('kind') in ('DeclRefExpr', 'CXXOperatorCallExpr', 'CXXMemberCallExpr') and member_name(n) not in ('counter', 'removedCounter') and n.get('kind') != 'BinaryOperator' else None)))).expr(cond)
                    if 'negb (N.eqb node_ctr removed_marker)' in txt or 'negb (N.eqb removed_marker node_ctr)' in txt:
                        return True
        return False
    g_remove = guarded('remove', 'doFreeNode')
    g_insert = guarded('insert', 'doInsert')
    g_owns = guarded('ownsHandle', None)

    out['GenCL.v'] = '''(* GENERATED by tools/leafgen.py from include/eventpp/callbacklist.h — do not edit *)
From Coq Require Import NArith Bool.
Local Open Scope N_scope.

(* enum : Counter { removedCounter = %s } *)
Definition removed_marker : N := %s.

(* doForEachIf: if(<this condition>) { visit }   — the step node = node->next follows the visit *)
Definition visit_cond (node_ctr captured : N) : bool := %s.

(* getNextCounter: if(<this test on result>) { every linked node's counter := rewrite_value; draw again } *)
Definition wrap_test (result : N) : bool := %s.
Definition wrap_rewrite_value : N := %s.
Definition wrap_second_draw : bool := %s.

(* is the action guarded by `node->counter != removedCounter` (under the mutex)? *)
Definition remove_checks_removed : bool := %s.
Definition insert_checks_removed : bool := %s.
Definition owns_checks_removed : bool := %s.
''' % (removed_val, removed_val, visit, wrap_test, rewrite_val, 'true' if second_draw else 'false',
       str(g_remove).lower(), str(g_insert).lower(), str(g_owns).lower())


LEAVES = [('callbacklist', leaf_cl)]


def main():
    os.makedirs(GEN, exist_ok=True)
    info = {'leaves': {}, 'failed': []}
    for name, fn in LEAVES:
        out = {}
        try:
            fn(out)
        except Untranslatable as e:
            info['failed'].append('%s: %s' % (name, e))
            continue
        except Exception as e:   # translator bug: treated as untranslatable, never as success
            info['failed'].append('%s: translator error %r' % (name, e))
            continue
        for fname, text in out.items():
            path = os.path.join(GEN, fname)
            old = open(path).read() if os.path.exists(path) else None
            if old != text:
                with open(path, 'w') as fh:
                    fh.write(text)
            info['leaves'][fname] = hashlib.sha256(text.encode()).hexdigest()[:16]
    if '--json' in sys.argv:
        print(json.dumps(info))
    else:
        for k, v in info['leaves'].items():
            print('generated %s %s' % (k, v))
        for f in info['failed']:
            print('FAILED ' + f)
    return 1 if info['failed'] else 0


if __name__ == '__main__':
    sys.exit(main())
