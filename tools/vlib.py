"""vlib.py — shared machinery of the /verif checks.

Pipeline of every check (see DESIGN.md section 2):
  1. tie A : tools/leafgen.py regenerates coq/gen/*.v from /repo's working tree
  2. proof : make the .vo closure of coq/Properties_<id>.v, re-run coqc on that file,
             parse Print Assumptions
  3. tie B : build the C++ harness from /repo's working tree (hooks on, ASan+UBSan),
             run extracted model and implementation on the same generated cases, diff
  4. break protocol: shrink, consult the extracted SPEC as property oracle, report
  5. evidence/<id>.json
"""
import hashlib
import json
import os
import re
import shutil
import subprocess
import sys
import time

sys.path.insert(0, os.path.dirname(os.path.abspath(__file__)))
import leafcore  # noqa: E402

ROOT = '/verif'
REPO = os.environ.get('VERIF_REPO', '/repo')   # experiments may point the checks at a scratch copy of the repository
WORK = leafcore.WORK                           # /verif, or a private copy of coq/ + ocaml/ for an experiment (see leafcore.work_root)
COQ = os.path.join(WORK, 'coq')
OCAML = os.path.join(WORK, 'ocaml')
DRIVERS = os.path.join(OCAML, '_build')
GUARD = 'EVENTPP_VERIF'
MASK = (1 << 64) - 1


class Rng:
    """splitmix64; every random choice of a run derives from one state seeded by VERIF_SEED"""

    def __init__(self, seed):
        self.s = (seed * 0x9E3779B97F4A7C15 + 0x1234567) & MASK

    def next(self):
        self.s = (self.s + 0x9E3779B97F4A7C15) & MASK
        z = self.s
        z = ((z ^ (z >> 30)) * 0xBF58476D1CE4E5B9) & MASK
        z = ((z ^ (z >> 27)) * 0x94D049BB133111EB) & MASK
        return z ^ (z >> 31)

    def below(self, n):
        return self.next() % n if n > 0 else 0

    def range(self, a, b):
        return a + self.below(b - a + 1)

    def chance(self, pct):
        return self.below(100) < pct

    def pick(self, seq):
        return seq[self.below(len(seq))]

    def weighted(self, pairs):
        tot = sum(w for _, w in pairs)
        r = self.below(tot)
        for v, w in pairs:
            if r < w:
                return v
            r -= w
        return pairs[-1][0]

    def fork(self):
        return Rng(self.next())


def sh(cmd, timeout=None, cwd=None, input=None, env=None):
    p = subprocess.run(cmd, shell=isinstance(cmd, str), cwd=cwd, input=input, env=env,
                       stdout=subprocess.PIPE, stderr=subprocess.PIPE, timeout=timeout,
                       universal_newlines=True, errors='replace')
    return p.returncode, p.stdout, p.stderr


def sha(path):
    try:
        return hashlib.sha256(open(path, 'rb').read()).hexdigest()[:16]
    except OSError:
        return None


# --------------------------------------------------------------------------- context

class Ctx:
    def __init__(self, pid, tier, seed):
        self.id = pid
        self.tier = tier
        self.seed = seed
        self.rng = Rng(seed)
        self.t0 = time.time()
        self.builddir = os.path.join(ROOT, 'build', '%s-%d' % (pid, os.getpid()))
        os.makedirs(self.builddir, exist_ok=True)
        self.replaydir = os.path.join(ROOT, 'replays', pid)
        os.makedirs(self.replaydir, exist_ok=True)
        self.violations = []       # (replay path, text, no_input)
        self.known = []            # KNOWN-FINDING lines
        self.coverage = {}
        self.assumptions = []
        self.samples = []
        self.notes = []
        self.findings = load_known()

    def budget(self, quick, thorough):
        return thorough if self.tier == 'thorough' else quick

    def cleanup(self):
        shutil.rmtree(self.builddir, ignore_errors=True)

    # ---- reporting
    def violation(self, replay_text, what, no_input=False, key=None):
        """record a violation unless it matches a committed known finding"""
        for f in self.findings:
            if f.get('kind') == 'finding' and f.get('property') == self.id and key is not None and f.get('key') == key:
                line = 'KNOWN-FINDING: property=%s %s' % (self.id, f.get('what', what))
                if line not in self.known:
                    self.known.append(line)
                return
        n = len(self.violations)
        path = os.path.join(self.replaydir, 'replay_%d_%d.txt' % (self.seed, n))
        with open(path, 'w') as fh:
            fh.write('# property %s\n# %s\n' % (self.id, what.replace('\n', '\n# ')))
            fh.write('# re-run: python3 /verif/tools/check.py %s --replay %s\n' % (self.id, path))
            fh.write(replay_text)
        self.violations.append((path, what, no_input))

    def finish(self, level='proof'):
        cov = dict(self.coverage)
        cov.setdefault('samples', self.samples[:5] if self.samples else ['(no sample)'])
        ev = {
            'property_id': self.id,
            'tier': self.tier,
            'seed': self.seed,
            'level': level,
            'coverage': cov,
            'assumptions': self.assumptions,
            'wall_s': round(time.time() - self.t0, 2),
            'violations': len(self.violations),
        }
        if self.notes:
            ev['coverage']['notes'] = self.notes
        # experiments against a modified copy of the repository (VERIF_REPO set) keep their evidence apart
        evdir = os.environ.get('VERIF_EVIDENCE_DIR') or os.path.join(ROOT, 'evidence' if REPO == '/repo' else 'build/evidence_experiments')
        os.makedirs(evdir, exist_ok=True)
        with open(os.path.join(evdir, self.id + '.json'), 'w') as fh:
            json.dump(ev, fh, indent=1, sort_keys=True)
        for line in self.known:
            print(line)
        for path, what, no_input in self.violations:
            print('# ' + what.split('\n')[0])
            print('VIOLATION property=%s replay=%s%s' % (self.id, path, ' no-failing-input-found' if no_input else ''))
        sys.stdout.flush()
        self.cleanup()
        return 1 if self.violations else 0


def load_known():
    p = os.path.join(ROOT, 'known_findings.json')
    try:
        return json.load(open(p)).get('entries', [])
    except (OSError, ValueError):
        return []


# --------------------------------------------------------------------------- Coq

def ensure_coq_makefile():
    if WORK == ROOT:
        sh('make coqproject', cwd=ROOT)
    mk = os.path.join(COQ, 'Makefile.coq')
    if not os.path.exists(mk) or os.path.getmtime(mk) < os.path.getmtime(os.path.join(COQ, '_CoqProject')):
        sh('coq_makefile -f _CoqProject -o Makefile.coq', cwd=COQ)


def leafgen(ctx):
    """tie A: regenerate coq/gen/*.v from /repo; returns (ok, info)"""
    rc, out, err = sh([sys.executable, os.path.join(ROOT, 'tools', 'leafgen.py'), '--json'], timeout=600)
    try:
        info = json.loads(out)
    except ValueError:
        info = {'error': (out + err)[-2000:], 'leaves': {}, 'failed': ['leafgen crashed']}
    return (rc == 0 and not info.get('failed')), info


LEAF_FILE = {'anydata': 'GenAnyData', 'anyid': 'GenAnyId', 'autoremove': 'GenAutoRemove', 'callbacklist': 'GenCL', 'ctors': 'GenCtor',
             'dispatch': 'GenDisp', 'exn': 'GenExn', 'filter': 'GenFilter', 'heter': 'GenHeter', 'locks': 'GenLocks', 'queue': 'GenQ',
             'queueconc': 'GenQConc', 'remover': 'GenRemover', 'spinlock': 'GenSpin'}


def needed_leaves(files):
    """the leaves (tie A) the given property files depend on: the generated modules reached through their Require lines"""
    seen, gens, todo = set(), set(), [f[:-2] if f.endswith('.v') else f for f in files]
    while todo:
        m = todo.pop()
        if m in seen:
            continue
        seen.add(m)
        path = os.path.join(COQ, m + '.v')
        if not os.path.exists(path):
            continue
        src = re.sub(r'\(\*.*?\*\)', ' ', open(path).read(), flags=re.S)
        for stmt in re.findall(r'(?:From\s+[\w.]+\s+)?Require\s+(?:Import\s+|Export\s+)?([^.]*(?:\.[A-Za-z][^.]*)*)\.\s', src):
            for w in stmt.split():
                w = w.split('.')[-1]
                if w.startswith('Gen') and os.path.exists(os.path.join(COQ, 'gen', w + '.v')):
                    gens.add(w)
                elif os.path.exists(os.path.join(COQ, w + '.v')):
                    todo.append(w)
    return sorted(n for n, g in LEAF_FILE.items() if g in gens)


def coq_prove(ctx, files, timeout=1500, leaves=None):
    """builds the .vo closure of the given property files with make -k, then re-runs
    coqc on each property file to get fresh Print Assumptions output.
    returns dict(ok, obligations, discharged, axioms, closed, errors, names)"""
    ensure_coq_makefile()
    res = {'ok': True, 'obligations': 0, 'discharged': 0, 'axioms': [], 'closed': 0, 'errors': [], 'names': []}
    ok_leaf, linfo = leafgen(ctx)
    res['leaves'] = linfo.get('leaves', {})
    if not ok_leaf:
        failed = linfo.get('failed') or [linfo.get('error')]
        # only the leaves this property depends on decide it (leaves: list of leaf names; None = those its files import)
        if leaves is None:
            leaves = needed_leaves(files)
        mine = [f for f in failed if any(str(f).startswith(n + ':') for n in leaves) or 'crashed' in str(f)]
        res['foreign_leaf_failures'] = [f for f in failed if f not in mine]
        if mine:
            res['ok'] = False
            res['errors'].append('tie A (leafgen) could not translate: %s' % json.dumps(mine))
    # the extracted models follow the regenerated leaves too (no-op when nothing changed);
    # when a proof then fails, the checks fall back to the extracted SPEC as oracle
    ex = ' '.join(f.replace('.v', '.vo') for f in sorted(os.listdir(COQ)) if f.startswith('Extract') and f.endswith('.v'))
    sh('timeout %d make -f Makefile.coq -k -j16 %s' % (timeout, ex), cwd=COQ, timeout=timeout + 60)
    sh('make -C %s' % OCAML, timeout=600)
    targets = ' '.join(f.replace('.v', '.vo') for f in files)
    rc, out, err = sh('timeout %d make -f Makefile.coq -k -j16 %s' % (timeout, targets), cwd=COQ, timeout=timeout + 60)
    if rc != 0:
        res['ok'] = False
        m = re.findall(r'File "\./([^"]+)", line (\d+), characters [^\n]*\n(Error:(?:[^\n]*\n?){1,12})', out + err)
        for f, ln, msg in m[:5]:
            res['errors'].append('%s:%s %s' % (f, ln, ' '.join(msg.split())[:600]))
        if not m:
            res['errors'].append(('make failed: ' + (err or out)[-800:]))
    for f in files:
        src = open(os.path.join(COQ, f)).read()
        names = re.findall(r'^\s*(?:Theorem|Corollary)\s+(\w+)', src, re.M)
        res['obligations'] += len(names)
        res['names'] += names
        rc2, out2, err2 = sh('timeout %d coqc -Q . EV %s' % (timeout, f), cwd=COQ, timeout=timeout + 60)
        if rc2 != 0:
            res['ok'] = False
            msg = ' '.join((err2 or out2).split())[-700:]
            if not any(f in e for e in res['errors']):
                res['errors'].append('%s: %s' % (f, msg))
            continue
        res['discharged'] += len(names)
        res['closed'] += out2.count('Closed under the global context')
        for blk in re.findall(r'Axioms:\n((?:.+\n?)+?)(?:\n|$)', out2):
            for line in blk.splitlines():
                mm = re.match(r'^(\S+)\s*:', line)
                if mm and mm.group(1) not in res['axioms']:
                    res['axioms'].append(mm.group(1))
    return res


# --------------------------------------------------------------------------- C++

def build_cpp(ctx, name, src, defs=(), compiler='g++', std='c++17', opt='-O1', san=True, extra=''):
    out = os.path.join(ctx.builddir, name)
    flags = '-std=%s %s -g -D%s -I%s/include -I%s/harness -pthread %s' % (std, opt, GUARD, REPO, ROOT, extra)
    if san:
        flags += ' -fsanitize=address,undefined -fno-sanitize-recover=all -fno-omit-frame-pointer'
    flags += ''.join(' -D' + d for d in defs)
    cmd = '%s %s %s -o %s' % (compiler, flags, os.path.join(ROOT, 'harness', src), out)
    rc, o, e = sh(cmd, timeout=900)
    if rc != 0:
        return None, (e or o)[-3000:]
    return out, ''


def build_many(ctx, specs):
    """specs: list of dict(name, src, defs, compiler, std, opt, san) built in parallel"""
    import concurrent.futures
    res = {}
    with concurrent.futures.ThreadPoolExecutor(max_workers=14) as ex:
        futs = {ex.submit(build_cpp, ctx, **s): s['name'] for s in specs}
        for f in concurrent.futures.as_completed(futs):
            res[futs[f]] = f.result()
    return res


# --------------------------------------------------------------------------- traces

def parse_traces(text):
    """'case N' ... 'end' blocks -> {N: [lines]} ; an unterminated last block is marked"""
    cases = {}
    cur = None
    order = []
    for line in text.splitlines():
        line = line.strip()
        if line.startswith('case '):
            cur = line.split()[1]
            cases[cur] = []
            order.append(cur)
        elif line == 'end':
            if cur is not None:
                cases[cur].append('end')
            cur = None
        elif cur is not None:
            cases[cur].append(line)
    return cases, order


SAN_ENV = dict(os.environ, ASAN_OPTIONS='detect_leaks=1:abort_on_error=0:exitcode=99:allocator_may_return_null=1',
               UBSAN_OPTIONS='print_stacktrace=1:halt_on_error=1', LSAN_OPTIONS='exitcode=98')


def run_model(domain, text, timeout=600, driver='cl'):
    """domain: the mode argument understood by ocaml/_build/driver_<driver>"""
    rc, out, err = sh([os.path.join(DRIVERS, 'driver_' + driver), domain], input=text, timeout=timeout)
    if rc != 0:
        raise RuntimeError('model driver failed (%s): %s' % (domain, err[-500:]))
    return parse_traces(out)[0]


HANG_SECONDS = [0.0]     # time this process has spent waiting for cases that never returned


def run_impl(binary, case_texts, ids, timeout=600):
    """runs all cases in one process; on a crash the crashing case is marked and the rest
    is re-run in a new process.  returns {id: lines}; a crashed case ends with 'CRASH <why>'"""
    res = {}
    pending = list(ids)
    guard = 0
    while pending and guard < len(ids) + 10:
        guard += 1
        text = ''.join(case_texts[i] for i in pending)
        # a batch of thousands of cases takes seconds; a case that never returns (deadlock, endless loop) is
        # recognised by the batch running out of time: what was printed before tells which case it was
        # (single cases — the shrinkers' re-runs — get seconds, fewer still once hangs have cost minutes)
        base = 45 if len(pending) > 3 else (8 if HANG_SECONDS[0] < 150 else 3)
        tmo = min(timeout, base + 0.05 * len(pending))
        try:
            rc, out, err = sh([binary], input=text, timeout=tmo, env=SAN_ENV)
        except subprocess.TimeoutExpired as te:
            part = te.stdout or ''
            if isinstance(part, bytes):
                part = part.decode('utf-8', 'replace')
            pcases, porder = parse_traces(part)
            pdone = [c for c in porder if pcases[c] and pcases[c][-1] == 'end']
            for c in pdone:
                res[c] = pcases[c]
            bad = next((c for c in pending if c not in pdone), None)
            if bad is None:
                break
            HANG_SECONDS[0] += tmo
            res[bad] = pcases.get(bad, []) + ['HANG the call did not return within %d s' % int(tmo)]
            pending = pending[pending.index(bad) + 1:]
            hangs = sum(1 for v in res.values() if v and v[-1].startswith('HANG'))
            if hangs >= 4:
                # enough evidence; the remaining cases are not run (reported as such, never as agreement)
                for c in pending:
                    res[c] = ['NOT-RUN after %d hanging cases' % hangs]
                break
            continue
        cases, order = parse_traces(out)
        done = [c for c in order if cases[c] and cases[c][-1] == 'end']
        for c in done:
            res[c] = cases[c]
        if rc == 0 and len(done) == len(pending):
            break
        dl = bool(done) and any(l.startswith('DEADLOCK') for l in cases[done[-1]])
        if dl and len(done) < len(pending):
            # the scheduler harness ends the process after reporting a deadlock: go on with the rest
            pending = pending[pending.index(done[-1]) + 1:]
            continue
        if dl and len(done) == len(pending):
            break
        # find the first case not completed
        bad = None
        for c in pending:
            if c not in done:
                bad = c
                break
        if bad is None:
            # all cases finished but exit status non-zero: leak report at exit
            why = sanitizer_summary(err) or ('exit status %d' % rc)
            res['__exit__'] = ['CRASH ' + why]
            break
        why = sanitizer_summary(err) or ('exit status %d' % rc)
        res[bad] = cases.get(bad, []) + ['CRASH ' + why]
        pending = pending[pending.index(bad) + 1:]
    return res


def sanitizer_summary(err):
    m = re.search(r'SUMMARY: (\w+): ([^\n]*)', err)
    if m:
        s = m.group(2)
        s = re.sub(r'0x[0-9a-f]+', 'ADDR', s)
        s = re.sub(r'/[^ ]*/', '', s)
        return '%s %s' % (m.group(1), s[:160])
    m = re.search(r'runtime error: ([^\n]*)', err)
    if m:
        return 'UBSan ' + m.group(1)[:160]
    if 'terminate called' in err:
        return 'terminate ' + err.split('terminate called')[1][:120].replace('\n', ' ')
    if 'harness-error' in err:
        return 'harness-error'
    return None


def first_diff(a, b):
    for i in range(max(len(a), len(b))):
        x = a[i] if i < len(a) else '<nothing>'
        y = b[i] if i < len(b) else '<nothing>'
        if x != y:
            return i, x, y
    return None


def filt(lines, keep):
    return [l for l in lines if keep(l)]


def ref_args_probe(ctx, builds):
    """harness/ref_args.cpp in the given (compiler, std, opt) builds: listeners must receive the caller's arguments themselves
    (writes through `T &` reach the next listener and the caller, `const T &` has the caller's address).  A build whose
    output says otherwise is a failing configuration.  Returns the number of builds run."""
    n = 0
    for (compiler, std, opt) in builds:
        name = 'ref_args_%s_%s_%s' % (compiler.replace('+', 'x'), std.replace('+', 'x'), opt.strip('-'))
        path, err = build_cpp(ctx, name, 'ref_args.cpp', compiler=compiler, std=std, opt=opt)
        if path is None:
            ctx.violation('# harness/ref_args.cpp does not compile with %s -std=%s %s against the headers\n# %s\n' % (compiler, std, opt, err[-1200:].replace('\n', '\n# ')),
                          'reference-argument probe does not compile with %s -std=%s' % (compiler, std), no_input=True)
            continue
        rc, out, e = sh([path], timeout=120)
        n += 1
        if rc != 0 or 'ref-args ok' not in out:
            ctx.violation('# configuration: %s -std=%s %s\n# harness/ref_args.cpp (prototypes void(int &, const std::string &))\n# output:\n# %s\n%s'
                          % (compiler, std, opt, out.strip().replace('\n', '\n# '), ('# stderr: ' + e[-600:].replace('\n', '\n# ') + '\n') if e.strip() else ''),
                          'listeners do not receive the caller\'s arguments themselves when built with %s -std=%s: %s'
                          % (compiler, std, '; '.join(l for l in out.splitlines() if '=' in l)[:300]))
    return n


def fixed_probe(ctx, src, okline, builds, what):
    """a harness whose expected output is fixed (the lines say whether a clause of the property holds): every build must end
    with `okline`; a build that does not is a failing configuration"""
    n = 0
    for (compiler, std, opt) in builds:
        name = '%s_%s_%s_%s' % (src.replace('.cpp', ''), compiler.replace('+', 'x'), std.replace('+', 'x'), opt.strip('-'))
        path, err = build_cpp(ctx, name, src, compiler=compiler, std=std, opt=opt)
        if path is None:
            ctx.violation('# harness/%s does not compile with %s -std=%s %s against the headers\n# %s\n' % (src, compiler, std, opt, err[-1200:].replace('\n', '\n# ')),
                          '%s: probe does not compile with %s -std=%s' % (what, compiler, std), no_input=True)
            continue
        rc, out, e = sh([path], timeout=120)
        n += 1
        if rc != 0 or okline not in out:
            ctx.violation('# configuration: %s -std=%s %s\n# harness/%s\n# output:\n# %s\n%s'
                          % (compiler, std, opt, src, out.strip().replace('\n', '\n# '), ('# stderr: ' + e[-800:].replace('\n', '\n# ') + '\n') if e.strip() else ''),
                          '%s (%s -std=%s): %s' % (what, compiler, std, '; '.join(out.strip().splitlines()[-3:])[:300]))
    return n
