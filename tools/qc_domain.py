"""qc_domain.py — thread programs and schedules for the thread-level queue checks
(domain qconc: coq/QConc.v, harness/qconc.cpp + vsched.h, ocaml/driver_qconc.ml).

case = dict(threads=[[cmd,...],...], schedule=[tid,...]); every enqueued argument value is unique,
so dispatched / taken / drained events are identifiable in the trace."""
import vlib


def case_text(cid, case):
    out = ['case %s' % cid]
    for i, th in enumerate(case['threads']):
        out.append('thread %d : %s' % (i, ' ; '.join(' '.join(c) for c in th)))
    out.append('schedule : ' + ' '.join(str(t) for t in case['schedule']))
    out.append('end')
    return '\n'.join(out) + '\n'


def parse_cases(text):
    out, cur = [], None
    for line in text.splitlines():
        ws = line.split()
        if not ws or ws[0] == '#':
            continue
        if ws[0] == 'case':
            cur = {'threads': [], 'schedule': []}
            out.append(cur)
        elif ws[0] == 'thread':
            cmds, c = [], []
            for w in ws[3:]:
                if w == ';':
                    if c:
                        cmds.append(c)
                    c = []
                else:
                    c.append(w)
            if c:
                cmds.append(c)
            cur['threads'].append(cmds)
        elif ws[0] == 'schedule':
            cur['schedule'] = [int(x) for x in ws[2:]]
    return out


def gen_case(r, flavour):
    nt = r.range(2, 4)
    threads = []
    arg = [10]

    def enq():
        arg[0] += 1
        return ['enqueue', str(r.below(3)), str(arg[0])]
    roles = []
    for i in range(nt):
        if flavour == 'wait':
            roles.append(r.weighted([('waiter', 4), ('producer', 4), ('consumer', 2)]) if i else 'waiter')
        elif flavour == 'empty':
            roles.append(r.weighted([('observer', 3), ('producer', 3), ('consumer', 4)]) if i else 'observer')
        else:
            roles.append(r.weighted([('producer', 5), ('consumer', 5), ('mixed', 2)]))
    if flavour == 'wait' and 'producer' not in roles:
        roles[-1] = 'producer'
    if flavour != 'wait' and 'producer' not in roles:
        roles[0] = 'producer'
    for role in roles:
        cmds = []
        n = r.range(1, 4)
        if role == 'producer':
            depth = 0
            for _ in range(n + 1):
                if flavour == 'wait' and r.chance(35) and depth < 2:
                    cmds.append(['disable_begin'])
                    depth += 1
                cmds.append(enq())
                if depth and r.chance(60):
                    cmds.append(['disable_end'])
                    depth -= 1
            while depth:
                cmds.append(['disable_end'])
                depth -= 1
        elif role == 'consumer':
            pool = [['process'], ['processone'], ['take'], ['clear']] if flavour == 'empty' else \
                   [['process'], ['processone'], ['processif', str(r.below(2))], ['processuntil', str(r.below(2))], ['take'], ['peek'], ['clear']]
            for _ in range(n):
                cmds.append(list(r.pick(pool)))
        elif role == 'waiter':
            cmds.append([r.pick(['wait', 'waitfor', 'waitfor'])])
            cmds.append(list(r.pick([['process'], ['processone'], ['take']])))
            if r.chance(40):
                cmds.append(['waitfor'])
                cmds.append(['process'])
        elif role == 'observer':
            for _ in range(n + 1):
                # the property's second observer: waitFor that times out while no DisableQueueNotify exists
                cmds.append(['waitfor'] if r.chance(30) else ['emptyq'])
        else:
            for _ in range(n):
                cmds.append(enq() if r.chance(50) else list(r.pick([['process'], ['processone'], ['emptyq'], ['take']])))
        threads.append(cmds)
    sched = []
    cur = r.below(nt)
    for _ in range(r.range(40, 160)):
        if r.chance(45):
            cur = r.below(nt)
        sched.append(cur)
    # waits may also end without a notification: token 1000 + w = the timed wait of thread w times out now,
    # token 2000 + w = the wait of thread w wakes up spuriously (both are no-ops when they do not apply)
    if (flavour == 'wait' and r.chance(40)) or (flavour == 'empty' and r.chance(70)):
        waiters = [i for i, th in enumerate(threads) if any(c[0] in ('wait', 'waitfor') for c in th)]
        for _ in range(r.range(1, 3)):
            if waiters:
                sched.insert(r.below(len(sched) + 1), r.pick([1000, 2000, 2000]) + r.pick(waiters))
    return {'threads': threads, 'schedule': sched}


def balanced(case):
    for th in case['threads']:
        d = 0
        for c in th:
            if c[0] == 'disable_begin':
                d += 1
            elif c[0] == 'disable_end':
                d -= 1
                if d < 0:
                    return False
        if d != 0:
            return False
    return True


def single_waiter(case):
    return sum(1 for th in case['threads'] if any(c[0] in ('wait', 'waitfor') for c in th)) == 1


def monitors(trace, case=None):
    """checks on one trace (model or implementation) that follow from the property text alone"""
    problems = []
    seen = {}
    enq = set()
    for l in trace:
        ws = l.split()
        if ws[0] in ('disp', 'taken', 'drained'):
            ev = (ws[-2], ws[-1])
            if ev in seen and not (ws[0] == 'disp' and seen[ev] == 'taken'):
                problems.append('event %s %s consumed twice (%s then %s)' % (ev[0], ev[1], seen[ev], ws[0]))
            seen[ev] = ws[0]
        if ws[0] == 'DEADLOCK':
            kv = dict(x.split('=') for x in ws[1:])
            # with several waiters notify_one may legitimately wake one that does not drain the queue
            if int(kv.get('pending', '0')) > 0 and int(kv.get('nc', '0')) == 0 and (case is None or single_waiter(case)):
                problems.append('every thread is blocked for ever although %s event(s) are pending and notification is enabled (lost wake-up)' % kv['pending'])
    return problems


def empty_report_problems(trace, case):
    """C11 as stated: if emptyQueue() returns true — or waitFor times out while no DisableQueueNotify object exists — then every
    event whose enqueue had completed before that call began has been fully consumed (its dispatch has returned, or it was
    taken or cleared).  Read off one trace: a call begins after the thread's previous result line; an enqueue has completed at
    its `done` line; an event counts as consumed from its `disp` line (the listener prints it; nothing weaker can be asked),
    a taken one from the BEGINNING of the call that reports it (`taken` is printed after the call has returned), and — since
    clearEvents reports nothing — any event counts as cleared from the beginning of every clearEvents call that had not
    ended when the event's enqueue began.  A waitFor during which queueNotifyCounter was ever above zero is not judged."""
    if case is None:
        return []
    n = len(case['threads'])
    # per thread: the calls as (begin, end, command); end = position of the result line (None: not finished)
    calls = [[] for _ in range(n)]
    b = [0] * n
    k = [0] * n
    for pos, l in enumerate(trace):
        ws = l.split()
        if ws and ws[0] in ('res', 'done') and ws[1][1:].isdigit():
            t = int(ws[1][1:])
            if t < n and k[t] < len(case['threads'][t]):
                calls[t].append((b[t], pos, case['threads'][t][k[t]], ws))
                k[t] += 1
                b[t] = pos + 1
    for t in range(n):
        if k[t] < len(case['threads'][t]):
            calls[t].append((b[t], None, case['threads'][t][k[t]], None))

    def call_at(t, pos):
        for c in calls[t]:
            if c[0] <= pos and (c[1] is None or pos <= c[1]):
                return c
        return None
    enq = {}                # (key, arg) -> (begin, done)
    for t in range(n):
        for (cb, ce, cmd, ws) in calls[t]:
            if cmd[0] == 'enqueue' and ce is not None:
                enq[(cmd[1], cmd[2])] = (cb, ce)
    clears = [(cb, ce) for t in range(n) for (cb, ce, cmd, ws) in calls[t] if cmd[0] == 'clear']
    consumed = {}
    for pos, l in enumerate(trace):
        ws = l.split()
        if ws and ws[0] in ('disp', 'taken', 'drained') and len(ws) >= 4 and ws[1][1:].isdigit():
            t = int(ws[1][1:])
            ev = (ws[-2], ws[-1])
            at = pos
            if ws[0] != 'disp' and t < n:
                c = call_at(t, pos)
                at = c[0] if c else pos
            consumed[ev] = min(consumed.get(ev, at), at)
    for ev, (eb, ed) in enq.items():
        for (cb, ce) in clears:
            if ce is None or ce > eb:
                consumed[ev] = min(consumed.get(ev, cb), cb)
    nc_seen = [(pos, int(l.split()[4])) for pos, l in enumerate(trace)
               if l.startswith('act') and len(l.split()) >= 5 and l.split()[3] == 'nc' and l.split()[4].lstrip('-').isdigit()]

    def disabled_during(cb, ce):
        level = 0
        for pos, v in nc_seen:
            if pos < cb:
                level = v
            elif pos <= ce and v > 0:
                return True
        return level > 0
    problems = []
    for t in range(n):
        for (cb, ce, cmd, ws) in calls[t]:
            if ce is None or ws[0] != 'res':
                continue
            if cmd[0] == 'emptyq' and ws[2] == '1':
                what = 'returned true'
            elif cmd[0] == 'waitfor' and ws[2] == '0' and not disabled_during(cb, ce):
                what = 'timed out with no DisableQueueNotify alive'
            else:
                continue
            for ev, (eb, ed) in enq.items():
                if ed < cb and not (ev in consumed and consumed[ev] < ce):
                    problems.append('%s of thread t%d %s although event %s %s, whose enqueue had completed before the call began, had not been dispatched, taken or cleared'
                                    % (cmd[0], t, what, ev[0], ev[1]))
                    break
    return problems


FIFO_KEY = 'fifo-foreign-putback'


def fifo_problems(trace, case):
    """C06, ordering clause: events enqueued by one thread and consumed (dispatched / taken) by one thread are consumed
    in the order they were enqueued.  Applied to a pair (producer P, consumer C) when every consumed event of P was
    consumed by C and C itself uses no predicate (its own processIf / processUntil consume out of order by design:
    what the predicate declines stays queued).  Returns [(text, key)]: key FIFO_KEY when another thread's processIf /
    processUntil is in the program (the committed known finding), None otherwise."""
    if case is None:
        return []
    owner, order = {}, {}
    for p, th in enumerate(case['threads']):
        for c in th:
            if c[0] == 'enqueue':
                owner[c[2]] = p
                order.setdefault(p, []).append(c[2])
    consumed = {}                      # producer -> [(consumer thread, arg)] in trace order
    for l in trace:
        ws = l.split()
        if ws and ws[0] in ('disp', 'taken') and ws[-1] in owner:
            consumed.setdefault(owner[ws[-1]], []).append((ws[1], ws[-1]))
    out = []
    for p, lst in consumed.items():
        cs = set(c for c, _ in lst)
        if len(cs) != 1:
            continue
        ctid = int(list(cs)[0][1:])
        if ctid >= len(case['threads']) or any(c[0] in ('processif', 'processuntil') for c in case['threads'][ctid]):
            continue
        idx = [order[p].index(a) for _, a in lst]
        if idx != sorted(idx):
            foreign = any(c[0] in ('processif', 'processuntil') for t, th in enumerate(case['threads']) if t != ctid for c in th)
            out.append(('thread t%d is the only consumer of the events thread t%d enqueued, and consumed them in the order %s although they were enqueued in the order %s'
                        % (ctid, p, ' '.join(a for _, a in lst), ' '.join(order[p])), FIFO_KEY if foreign else None))
    return out


def shrink(case, still, max_tests=200):
    tests = [0]

    def ok(c):
        tests[0] += 1
        if tests[0] > max_tests:
            return False
        try:
            return balanced(c) and still(c)
        except Exception:
            return False
    cur = {'threads': [list(t) for t in case['threads']], 'schedule': list(case['schedule'])}
    changed = True
    while changed and tests[0] <= max_tests:
        changed = False
        for i in range(len(cur['threads'])):
            j = 0
            while j < len(cur['threads'][i]):
                cand = {'threads': [list(t) for t in cur['threads']], 'schedule': cur['schedule']}
                del cand['threads'][i][j]
                if ok(cand):
                    cur = cand
                    changed = True
                else:
                    j += 1
        size = max(1, len(cur['schedule']) // 2)
        while size >= 1:
            k = 0
            while k < len(cur['schedule']):
                cand = {'threads': cur['threads'], 'schedule': cur['schedule'][:k] + cur['schedule'][k + size:]}
                if ok(cand):
                    cur = cand
                    changed = True
                else:
                    k += size
            size //= 2
    return cur


def run_both(binary, case, driver='qconc'):
    t = case_text('0', case)
    m = vlib.run_model('run', t, driver=driver).get('0', [])
    im = vlib.run_impl(binary, {'0': t}, ['0'], timeout=60).get('0', ['<missing>'])
    return t, m, im


def correspond(ctx, binary, cases, what, driver='qconc', monitors=None, fifo=False):
    base_monitors = monitors or globals()['monitors']

    def monitors(trace, case=None):
        return base_monitors(trace, case) + ([t for t, _ in fifo_problems(trace, case)] if fifo else [])
    ids = [str(i) for i in range(len(cases))]
    texts = {i: case_text(i, cases[int(i)]) for i in ids}
    model = vlib.run_model('run', ''.join(texts[i] for i in ids), driver=driver)
    impl = vlib.run_impl(binary, texts, ids, timeout=900)
    stats = {'compared': 0, 'disagreements': 0, 'monitor_alarms': 0, 'deadlocks': 0, 'actions': 0, 'distinct': 0}
    distinct = set()
    bad = []                                     # (priority, id, monitor problems): property-level alarms first
    for i in ids:
        stats['compared'] += 1
        a, b = model.get(i, []), impl.get(i, ['<missing>'])
        stats['actions'] += sum(1 for l in a if l.startswith('act'))
        if any(l.startswith('DEADLOCK') for l in a):
            stats['deadlocks'] += 1
        if sum(1 for l in a if l.startswith('act')) >= 8:
            distinct.add(texts[i].split('\n', 1)[1])
        probs = monitors(b, cases[int(i)])
        if probs:
            stats['monitor_alarms'] += 1
        if a == b and not probs:
            continue
        if a != b:
            stats['disagreements'] += 1
        bad.append((0 if probs else 1, int(i), probs))
    # how many schedules carry a wake-up without notification (tokens 1000 + w / 2000 + w), and on how many of them the token
    # changed the run (model trace with the tokens against the model trace without them)
    tok = [i for i in ids if any(x >= 1000 for x in cases[int(i)]['schedule'])]
    stats['with_unnotified_wake_tokens'] = len(tok)
    if tok:
        bare = vlib.run_model('run', ''.join(case_text(i, {'threads': cases[int(i)]['threads'], 'schedule': [x for x in cases[int(i)]['schedule'] if x < 1000]})
                                             for i in tok), driver=driver)
        stats['unnotified_wake_changed_the_run'] = sum(1 for i in tok if bare.get(i, []) != model.get(i, []))
    else:
        stats['unnotified_wake_changed_the_run'] = 0
    reported = 0
    for _, k, probs in sorted(bad):
        i = str(k)
        a, b = model.get(i, []), impl.get(i, ['<missing>'])
        if reported >= 3:
            break
        reported += 1
        case = cases[int(i)]
        keyed = fifo_problems(b, case) if fifo else []
        if probs and keyed and len(keyed) == len(probs) and all(k2 for _, k2 in keyed):
            # only the ordering clause is broken, and in the way the committed known finding describes
            reported -= 1
            ctx.violation(texts[i] + '# impl : %s\n' % ' | '.join(b), '%s: %s' % (what, '; '.join(probs)), key=keyed[0][1])
            continue
        if probs:
            def still(c):
                t, m, im = run_both(binary, c, driver)
                return bool(monitors(im, c))
            small = shrink(case, still)
            t, m, im = run_both(binary, small, driver)
            ctx.violation(t + '# model: %s\n# impl : %s\n' % (' | '.join(m), ' | '.join(im)),
                          '%s: %s' % (what, '; '.join(monitors(im, small) or probs)))
        else:
            def still2(c):
                t, m, im = run_both(binary, c, driver)
                return m != im
            small = shrink(case, still2)
            t, m, im = run_both(binary, small, driver)
            d = vlib.first_diff(m, im)
            # a difference between the traces of the model and of the implementation breaks the correspondence (tie B); the
            # property-level monitors found nothing wrong with the implementation's trace on this schedule, so this is not
            # (yet) an input on which the property fails
            ctx.violation('# correspondence that no longer checks: tie B for %s — the visible-action trace of the implementation under the\n'
                          '# cooperative scheduler against the extracted Coq model, on the schedule below (shrunk); the property-level monitors\n'
                          '# raised no alarm on the implementation\'s trace of this or any other replayed schedule reported here\n' % what
                          + t + '# model: %s\n# impl : %s\n' % (' | '.join(m), ' | '.join(im)),
                          '%s: implementation differs from the model at trace line %s: expected `%s`, implementation `%s`'
                          % (what, d[0] if d else '?', d[1] if d else '?', d[2] if d else '?'), no_input=True)
    stats['distinct'] = len(distinct)
    return stats, model, texts
