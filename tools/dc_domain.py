"""dc_domain.py — thread programs and schedules for the dispatcher-level thread check (C03)
(domain dispconc: coq/CLDispConc.v + coq/CLDispRun.v, harness/dispconc.cpp + vsched.h, ocaml/driver_dispconc.ml).
Case format as the other thread-level domains: thread k : cmds / schedule : ids."""

NEVENTS = 4


def gen_case(r):
    nt = r.range(2, 4)
    regs = []                 # register -> event it will belong to (filled by some adding call of some thread)
    cb = [0]

    def newcb():
        cb[0] += 1
        return cb[0]

    def newreg(e):
        regs.append(e)
        return len(regs) - 1

    def reg_of_event(e):
        mine = [h for h, ev in enumerate(regs) if ev == e]
        if mine and not r.chance(10):
            return r.pick(mine)
        return 90 + r.below(3)          # a register nobody fills: an empty handle
    # most cases concentrate on one or two events so that the threads meet on the same list
    hot = [r.below(NEVENTS)] + ([r.below(NEVENTS)] if r.chance(50) else [])

    def ev():
        return r.pick(hot) if r.chance(80) else r.below(NEVENTS)
    threads = []
    first = []
    for _ in range(r.range(0, 2)):
        e = ev()
        first.append(['append', str(e), str(newcb()), str(newreg(e))])
    for i in range(nt):
        cmds = list(first) if i == 0 else []
        for _ in range(r.range(1, 4)):
            k = r.weighted([('append', 5), ('prepend', 3), ('insert', 4), ('remove', 8), ('owns', 3), ('hasany', 3), ('walk', 4), ('dispatch', 4)])
            e = ev()
            if k in ('append', 'prepend'):
                cmds.append([k, str(e), str(newcb()), str(newreg(e))])
            elif k == 'insert':
                hb = reg_of_event(e)
                cmds.append(['insert', str(e), str(newcb()), str(hb), str(newreg(e))])
            elif k == 'remove':
                cmds.append(['remove', str(e), str(reg_of_event(e))])
            elif k == 'owns':
                # ownsHandle walks its own list: any handle may be asked about
                h = reg_of_event(e) if r.chance(70) or not regs else r.below(len(regs))
                cmds.append(['owns', str(e), str(h)])
            else:
                cmds.append([k, str(e)])
        threads.append(cmds)
    sched = []
    cur = r.below(nt)
    for _ in range(r.range(30, 120)):
        if r.chance(45):
            cur = r.below(nt)
        sched.append(cur)
    return {'threads': threads, 'schedule': sched}


def monitors(trace, case=None):
    """from the property text alone: every call returns (no deadlock, no crash), a handle is removed successfully at most
    once, no callback twice in a final list, every event's final list has as many callbacks as were added to it minus
    the successful removals from it"""
    problems = []
    if any(l.startswith('DEADLOCK') for l in trace):
        problems.append('deadlock')
    for l in trace:
        if l.startswith('CRASH') or l.startswith('HANG'):
            problems.append(l[:200])
    fins = {}
    for l in trace:
        ws = l.split()
        if ws and ws[0] == 'final' and len(ws) >= 3:
            ids = ws[3:]
            fins[ws[1]] = ids
            if len(ids) != len(set(ids)):
                problems.append('a callback appears twice in the final list of event %s: %s' % (ws[1], ' '.join(ids)))
    if case is not None and fins and not problems:
        per = {}
        for l in trace:
            ws = l.split()
            if ws and ws[0] in ('res', 'done'):
                per.setdefault(ws[1], []).append(ws)
        if all(len(per.get('t%d' % ti, [])) == len(th) for ti, th in enumerate(case['threads'])):
            added, removed = {}, {}
            seen_ok = set()
            for ti, th in enumerate(case['threads']):
                for c, o in zip(th, per.get('t%d' % ti, [])):
                    if c[0] in ('append', 'prepend', 'insert'):
                        added[c[1]] = added.get(c[1], 0) + 1
                    if c[0] == 'remove' and o[0] == 'res' and o[2] == '1':
                        removed[c[1]] = removed.get(c[1], 0) + 1
                        if c[2] in seen_ok:
                            problems.append('the handle in register %s was removed successfully twice' % c[2])
                        seen_ok.add(c[2])
            for e in sorted(set(list(added) + list(fins))):
                want = added.get(e, 0) - removed.get(e, 0)
                if e in fins and len(fins[e]) != want:
                    problems.append('event %s: final list has %d callbacks but %d were added and %d removals succeeded' % (e, len(fins[e]), added.get(e, 0), removed.get(e, 0)))
    # one walk = the visit lines of one thread between two of its result lines: no callback twice
    cur = {}
    for l in trace:
        ws = l.split()
        if ws and ws[0] == 'visit':
            seen = cur.setdefault(ws[1], [])
            if ws[2] in seen:
                problems.append('callback %s called twice by one walk of %s' % (ws[2], ws[1]))
            seen.append(ws[2])
        elif ws and ws[0] in ('done', 'res'):
            cur[ws[1]] = []
    return problems
