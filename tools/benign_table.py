#!/usr/bin/env python3
"""prints the markdown table of DESIGN.md 9.9 from /verif/benign/*/meta.json and description.txt"""
import glob
import json
import os
import re

rows = []
for d in sorted(glob.glob('/verif/benign/*/')):
    name = os.path.basename(d.rstrip('/'))
    try:
        m = json.load(open(os.path.join(d, 'meta.json')))
    except Exception:
        continue
    desc = ''
    p = os.path.join(d, 'description.txt')
    if os.path.exists(p):
        desc = ' '.join(open(p).read().split())
        desc = re.sub(r'\|', '/', desc)[:230]
    files = sorted(set(re.findall(r'^\+\+\+ b/include/eventpp/(\S+)', open(os.path.join(d, 'patch.diff')).read(), re.M)))
    alarms = m.get('alarms', [])
    kinds = []
    for a in alarms:
        cid = a.split(':')[0]
        log = os.path.join(d, 'check_%s.log' % cid)
        txt = open(log).read() if os.path.exists(log) else ''
        v = [l for l in txt.splitlines() if l.startswith('VIOLATION')]
        kinds.append('%s%s' % (cid, '' if v and all(l.rstrip().endswith('no-failing-input-found') for l in v) else '(!)'))
    rows.append('| %s | %s | %s | %s | %s |' % (name, ', '.join(files), desc, m.get('unit_suite_with_patch', '')[:40],
                                             'all twenty checks pass' if not alarms else 'refused by tie A, reported as no-failing-input-found: ' + ' '.join(kinds)))
print('| patch | files | what it does | unit suite | outcome of the twenty quick checks |')
print('|---|---|---|---|---|')
print('\n'.join(rows))
