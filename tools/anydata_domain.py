"""anydata_domain.py — case generator, text format, correspondence and shrinking for the AnyData
domain (property C17).  The same case text is read by ocaml/driver_anydata.ml (extracted Coq
model / specification) and by harness/anydata.cpp (the real eventpp::AnyData<cap>).

case text:
  case <id>
  cap <template argument of AnyData>
  large <sizeof(LargeData)>
  prog : cmd ; cmd ; ...
  end
commands (a payload type is written <kind> <size>, kind 0 trivial 1 non-trivial 2 move-only 3 shared):
  make r kind size val mode | move r r' | get r accessor | istype r kind size | addr r | where r |
  destroy r | enqueue r | qmake kind size val mode | process | take r | ledger | msz k s1 s2 ...
"""
import os
import re

import vlib

CAPS = (8, 16, 24, 64)
NREG = 8
MODES = ('copy', 'ccopy', 'move')


# --------------------------------------------------------------------------- harness

def build(ctx, caps):
    specs = [dict(name='anydata_%d' % c, src='anydata.cpp', defs=['VH_CAP=%d' % c]) for c in caps]
    res = vlib.build_many(ctx, specs)
    bins, errors = {}, {}
    for c in caps:
        path, err = res['anydata_%d' % c]
        if path is None:
            errors[c] = err
        else:
            bins[c] = path
    return bins, errors


def meta(binary):
    rc, out, err = vlib.sh([binary, '--meta'], timeout=60, env=vlib.SAN_ENV)
    if rc != 0:
        raise RuntimeError('harness --meta failed: %s' % (err or out)[-400:])
    m = {'types': [], 'msz': {}}
    for line in out.splitlines():
        w = line.split()
        if not w:
            continue
        if w[0] in ('cap', 'large', 'eff', 'maxsize', 'sizeof'):
            m[w[0]] = int(w[1])
        elif w[0] == 'types':
            seen = set()
            for t in w[1:]:
                k, s = t.split(':')
                if (int(k), int(s)) not in seen:
                    seen.add((int(k), int(s)))
                    m['types'].append((int(k), int(s)))
        elif w[0] == 'msz':
            m['msz'][int(w[1])] = [int(x) for x in w[2:]]
    return m


def probe_constructible(ctx, cap, size):
    """does `AnyData<cap> a(object of `size` bytes)` compile against /repo?  (used when the harness
    itself no longer compiles, to name the offending size)"""
    cmd = 'g++ -std=c++17 -fsyntax-only -D%s -I%s/include -DVH_CAP=%d -DVH_SIZE=%d %s' % (
        vlib.GUARD, vlib.REPO, cap, size, os.path.join(vlib.ROOT, 'harness', 'anydata_probe.cpp'))
    rc, out, err = vlib.sh(cmd, timeout=120)
    msg = ''
    if rc != 0:
        m = re.search(r'error: ([^\n]*)', err)
        msg = m.group(1) if m else err[-200:]
    return rc == 0, msg


# --------------------------------------------------------------------------- text

def case_text(cid, case):
    return 'case %s\ncap %d\nlarge %d\nprog : %s\nend\n' % (cid, case['cap'], case['large'], ' ; '.join(' '.join(c) for c in case['prog']))


def parse_case_text(text):
    cases = []
    cur = None
    for line in text.splitlines():
        w = line.split()
        if not w or w[0] == '#':
            continue
        if w[0] == 'case':
            cur = {'cap': 16, 'large': 16, 'prog': []}
        elif cur is None:
            continue
        elif w[0] == 'cap':
            cur['cap'] = int(w[1])
        elif w[0] == 'large':
            cur['large'] = int(w[1])
        elif w[0] == 'prog':
            cmds, c = [], []
            for x in w[2:]:
                if x == ';':
                    if c:
                        cmds.append(c)
                    c = []
                else:
                    c.append(x)
            if c:
                cmds.append(c)
            cur['prog'] = cmds
        elif w[0] == 'end':
            cases.append(cur)
            cur = None
    return cases


def corpus_cases():
    d = os.path.join(vlib.ROOT, 'corpus', 'anydata')
    out = []
    if os.path.isdir(d):
        for f in sorted(os.listdir(d)):
            if f.endswith('.case'):
                out += parse_case_text(open(os.path.join(d, f)).read())
    return out


# --------------------------------------------------------------------------- generator

class Gen:
    """programs over NREG registers; tracks the register states so that most commands are
    accepted, and deliberately issues some that must be rejected"""

    WEIGHTS = [('make', 18), ('move', 15), ('get', 14), ('istype', 10), ('addr', 6), ('where', 5), ('destroy', 10),
               ('enqueue', 8), ('qmake', 6), ('process', 5), ('take', 6), ('ledger', 8), ('msz', 1)]

    def __init__(self, rng, metas):
        self.r = rng
        self.metas = metas
        self.stats = {}

    def count(self, k):
        self.stats[k] = self.stats.get(k, 0) + 1

    def gen(self):
        r = self.r
        cap = r.pick(sorted(self.metas))
        m = self.metas[cap]
        types = m['types']
        eff = m['eff']
        near = [t for t in types if abs(t[1] - eff) <= 1]
        regs = {}          # r -> ('live', kind, size) | ('moved',)
        queue = []
        prog = []
        n = r.range(4, 36)

        def any_reg():
            return r.below(NREG)

        def live_reg():
            ls = [k for k, v in regs.items() if v[0] == 'live']
            return r.pick(ls) if ls and not r.chance(8) else any_reg()

        def free_reg():
            fs = [k for k in range(NREG) if k not in regs]
            return r.pick(fs) if fs and not r.chance(8) else any_reg()

        def a_type():
            return r.pick(near) if near and r.chance(45) else r.pick(types)

        for _ in range(n):
            op = r.weighted(self.WEIGHTS)
            self.count('cmd_' + op)
            if op == 'make':
                d = free_reg()
                k, s = a_type()
                prog.append(['make', str(d), str(k), str(s), str(r.below(200)), r.pick(MODES)])
                if d not in regs:
                    regs[d] = ('live', k, s)
            elif op == 'move':
                a, b = live_reg(), free_reg()
                prog.append(['move', str(a), str(b)])
                if regs.get(a, ('x',))[0] == 'live' and b not in regs:
                    regs[b] = regs[a]
                    regs[a] = ('moved',)
            elif op == 'get':
                prog.append(['get', str(live_reg()), str(r.below(4))])
            elif op == 'istype':
                a = live_reg()
                st = regs.get(a)
                if st and st[0] == 'live' and r.chance(40):
                    k, s = st[1], st[2]
                elif st and st[0] == 'live' and r.chance(50):
                    # same size another kind, or same kind another size
                    cands = [t for t in types if (t[1] == st[2]) != (t[0] == st[1])]
                    k, s = r.pick(cands) if cands else a_type()
                else:
                    k, s = a_type()
                prog.append(['istype', str(a), str(k), str(s)])
            elif op in ('addr', 'where'):
                prog.append([op, str(live_reg())])
            elif op == 'destroy':
                ps = list(regs)
                a = r.pick(ps) if ps and not r.chance(8) else any_reg()
                prog.append(['destroy', str(a)])
                regs.pop(a, None)
            elif op == 'enqueue':
                a = live_reg()
                prog.append(['enqueue', str(a)])
                if regs.get(a, ('x',))[0] == 'live':
                    queue.append(regs[a][1:])
                    regs[a] = ('moved',)
            elif op == 'qmake':
                k, s = a_type()
                prog.append(['qmake', str(k), str(s), str(r.below(200)), r.pick(MODES)])
                queue.append((k, s))
            elif op == 'process':
                prog.append(['process'])
                queue = []
            elif op == 'take':
                d = free_reg()
                prog.append(['take', str(d)])
                if d not in regs and queue:
                    k, s = queue.pop(0)
                    regs[d] = ('live', k, s)
            elif op == 'ledger':
                # a quiescent point: often destroy the moved-from registers first
                if r.chance(60):
                    for a in [k for k, v in regs.items() if v[0] == 'moved']:
                        prog.append(['destroy', str(a)])
                        regs.pop(a)
                prog.append(['ledger'])
            elif op == 'msz':
                k = r.pick(sorted(m['msz']))
                prog.append(['msz', str(k)] + [str(x) for x in m['msz'][k]])
        return {'cap': cap, 'large': m['large'], 'prog': prog}


def chain_case(rng, metas):
    """one value through a long chain of moves and queue round trips, then read"""
    cap = rng.pick(sorted(metas))
    m = metas[cap]
    k, s = rng.pick(m['types'])
    v = rng.below(200)
    prog = [['make', '0', str(k), str(s), str(v), rng.pick(MODES)]]
    cur, nxt = 0, 1
    for _ in range(rng.range(3, 14)):
        if rng.chance(60):
            prog.append(['move', str(cur), str(nxt)])
        else:
            prog.append(['enqueue', str(cur)])
            prog.append(['take', str(nxt)])
        if rng.chance(70):
            prog.append(['destroy', str(cur)])
        cur, nxt = nxt, nxt + 1
        if rng.chance(30):
            prog.append(['get', str(cur), str(rng.below(4))])
    prog += [['get', str(cur), '0'], ['addr', str(cur)], ['istype', str(cur), str(k), str(s)], ['where', str(cur)]]
    if rng.chance(50):
        prog += [['enqueue', str(cur)], ['process']]
    return {'cap': cap, 'large': m['large'], 'prog': prog}


# --------------------------------------------------------------------------- correspondence

def nontrivial(trace):
    reads = sum(1 for l in trace if l.startswith('get ') or l.startswith('deliver '))
    other = sum(1 for l in trace if l.startswith('istype') or l.startswith('ledger') or l.startswith('addr'))
    return reads >= 2 and other >= 2


def trace_features(case, trace):
    f = set()
    for l in trace:
        w = l.split()
        if w[0] == 'where':
            f.add('inline' if w[1] == '1' else 'heap')
        elif w[0] in ('reject', 'deliver'):
            f.add(w[0])
        elif w[0] == 'istype':
            f.add('istype' + w[1])
    ops = set(c[0] for c in case['prog'])
    for o in ('take', 'enqueue', 'qmake', 'process', 'msz'):
        if o in ops:
            f.add('op_' + o)
    f.add('cap%d' % case['cap'])
    return f


def keep_impl(keep):
    return lambda l: keep(l) or l.startswith('CRASH') or l.startswith('HANG') or l.startswith('fault') or l.startswith('harness-error')


def shrink(case, still_fails, max_tests=300):
    tests = [0]

    def ok(c):
        tests[0] += 1
        if tests[0] > max_tests:
            return False
        try:
            return still_fails(c)
        except Exception:
            return False
    cur = dict(case, prog=list(case['prog']))
    changed = True
    while changed and tests[0] <= max_tests:
        changed = False
        size = max(1, len(cur['prog']) // 2)
        while size >= 1:
            i = 0
            while i < len(cur['prog']):
                cand = dict(cur, prog=cur['prog'][:i] + cur['prog'][i + size:])
                if cand['prog'] and ok(cand):
                    cur = cand
                    changed = True
                else:
                    i += size
            size //= 2
    return cur


def correspond(ctx, bins, cases, keep=lambda l: True, model_mode='anydata', what='AnyData', max_reports=3):
    """runs the model (or the specification, model_mode='anydata-spec') and the implementation on the
    cases and compares the traces case by case; disagreements are shrunk and reported"""
    ids = [str(i) for i in range(len(cases))]
    texts = {i: case_text(i, cases[int(i)]) for i in ids}
    model = vlib.run_model(model_mode, ''.join(texts[i] for i in ids), driver='anydata')
    bad_model = [i for i in ids if any(l in ('nocompile', 'fault') for l in model.get(i, ['fault']))]
    stats = {'generated': len(cases), 'compared': 0, 'disagreements': 0, 'model_error_discarded': 0,
             'model_nocompile_or_fault': len(bad_model), 'features': {}, 'distinct_nontrivial': 0}
    distinct = set()
    for i in ids:
        tr = model.get(i, [])
        if nontrivial(tr):
            distinct.add(texts[i].split('\n', 1)[1])
        for f in trace_features(cases[int(i)], tr):
            stats['features'][f] = stats['features'].get(f, 0) + 1
    stats['distinct_nontrivial'] = len(distinct)
    reported = 0
    ki = keep_impl(keep)
    for cap, binary in sorted(bins.items()):
        mine = [i for i in ids if cases[int(i)]['cap'] == cap]
        if not mine:
            continue
        impl = vlib.run_impl(binary, texts, mine)
        if '__exit__' in impl:
            ctx.violation(''.join(texts[i] for i in mine[:50]),
                          '%s: harness cap=%d: %s at process exit (not attributable to one case)' % (what, cap, impl['__exit__'][0]))
            reported += 1
        for i in mine:
            stats['compared'] += 1
            a = vlib.filt(model.get(i, ['<missing>']), keep)
            b = vlib.filt(impl.get(i, ['<missing>']), ki)
            if a == b:
                continue
            stats['disagreements'] += 1
            if reported >= max_reports:
                continue
            reported += 1

            def still(c, binary=binary):
                t = case_text('0', c)
                m = vlib.run_model(model_mode, t, driver='anydata').get('0', ['<missing>'])
                im = vlib.run_impl(binary, {'0': t}, ['0'], timeout=60).get('0', ['<missing>'])
                return vlib.filt(m, keep) != vlib.filt(im, ki)
            small = shrink(cases[int(i)], still)
            ctx.violation(*describe(small, binary, keep, model_mode, what))
    return stats, model, texts


def describe(case, binary, keep, model_mode, what):
    t = case_text('0', case)
    m = vlib.run_model('anydata', t, driver='anydata').get('0', [])
    sp = vlib.run_model('anydata-spec', t, driver='anydata').get('0', [])
    im = vlib.run_impl(binary, {'0': t}, ['0'], timeout=60).get('0', [])
    ref = sp if model_mode == 'anydata-spec' else m
    d = vlib.first_diff(vlib.filt(ref, keep), vlib.filt(im, keep_impl(keep)))
    replay = t + '# oracle  : %s\n# model   : %s\n# spec    : %s\n# impl    : %s\n' % (
        'value-semantics specification (where lines ignored)' if model_mode == 'anydata-spec' else 'proved model',
        ' | '.join(m), ' | '.join(sp), ' | '.join(im))
    msg = '%s: the real AnyData<%d> differs from the %s at trace line %s: expected `%s`, implementation `%s`' % (
        what, case['cap'], 'specification' if model_mode == 'anydata-spec' else 'proved model',
        d[0] if d else '?', d[1] if d else '?', d[2] if d else '?')
    return replay, msg


def replay_file(ctx, path, keep=lambda l: True):
    cases = parse_case_text(open(path).read())
    caps = sorted(set(c['cap'] for c in cases))
    bins, errors = build(ctx, caps)
    bad = 0
    for k, case in enumerate(cases):
        t = case_text(str(k), case)
        m = vlib.run_model('anydata', t, driver='anydata').get(str(k), ['<missing>'])
        sp = vlib.run_model('anydata-spec', t, driver='anydata').get(str(k), ['<missing>'])
        print('model : ' + ' | '.join(m))
        print('spec  : ' + ' | '.join(sp))
        if case['cap'] not in bins:
            print('impl  : harness for cap=%d does not compile: %s' % (case['cap'], errors.get(case['cap'], '')[-300:].replace('\n', ' ')))
            bad += 1
            continue
        im = vlib.run_impl(bins[case['cap']], {str(k): t}, [str(k)], timeout=120).get(str(k), ['<missing>'])
        print('impl  : ' + ' | '.join(im))
        nowhere = lambda l: not l.startswith('where')   # noqa: E731
        if vlib.filt(m, keep) != vlib.filt(im, keep_impl(keep)) or vlib.filt(sp, nowhere) != vlib.filt(im, keep_impl(nowhere)):
            bad += 1
    return bad
