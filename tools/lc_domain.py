"""lc_domain.py — thread programs and schedules for the thread-level callback-list check (C03)
(domain clconc: coq/CLConc.v, harness/clconc.cpp + vsched.h, ocaml/driver_clconc.ml)."""
import qc_domain


def gen_case(r):
    nt = r.range(2, 4)
    threads = []
    nreg = [0]
    cb = [0]

    def newreg():
        nreg[0] += 1
        return nreg[0] - 1

    def somereg():
        if nreg[0] == 0 or r.chance(8):
            return 90 + r.below(3)
        return r.below(nreg[0] + 1)       # may name a register another thread fills later

    def newcb():
        cb[0] += 1
        return cb[0]
    # a few initial callbacks by thread 0 so that traversals have something to walk
    first = []
    for _ in range(r.range(0, 3)):
        first.append(['append', str(newcb()), str(newreg())])
    for i in range(nt):
        cmds = list(first) if i == 0 else []
        for _ in range(r.range(1, 4)):
            k = r.weighted([('append', 5), ('prepend', 3), ('insert', 5), ('remove', 7), ('owns', 2), ('empty', 1), ('invoke', 5), ('foreach', 2)])
            if k in ('append', 'prepend'):
                cmds.append([k, str(newcb()), str(newreg())])
            elif k == 'insert':
                cmds.append(['insert', str(newcb()), str(somereg()), str(newreg())])
            elif k in ('remove', 'owns'):
                cmds.append([k, str(somereg())])
            elif k == 'invoke':
                cmds.append(['invoke', str(r.range(1, 99))])
            else:
                cmds.append([k])
        threads.append(cmds)
    sched = []
    cur = r.below(nt)
    for _ in range(r.range(40, 200)):
        if r.chance(45):
            cur = r.below(nt)
        sched.append(cur)
    return {'threads': threads, 'schedule': sched}


def monitors(trace, case=None):
    """from the property text alone: every call returns (no deadlock), a handle is removed successfully at
    most once, no callback is visited twice by one traversal, the final content has no duplicates"""
    problems = []
    if any(l.startswith('DEADLOCK') for l in trace):
        problems.append('deadlock')
    fin = [l for l in trace if l.startswith('final')]
    if fin:
        ids = fin[0].split()[1:]
        if len(ids) != len(set(ids)):
            problems.append('a callback appears twice in the final list: %s' % ' '.join(ids))
    if case is not None:
        added = sum(1 for th in case['threads'] for c in th if c[0] in ('append', 'prepend', 'insert'))
        removed_ok = 0
        # successful removals: `res tN 1` lines that answer a remove — identified per thread by call order
        per = {}
        for l in trace:
            ws = l.split()
            if ws[0] in ('res', 'done'):
                per.setdefault(ws[1], []).append(ws)
        for ti, th in enumerate(case['threads']):
            outs = per.get('t%d' % ti, [])
            for c, o in zip(th, outs):
                if c[0] == 'remove' and o[0] == 'res' and o[2] == '1':
                    removed_ok += 1
        if fin and not problems and all(len(per.get('t%d' % ti, [])) == len(th) for ti, th in enumerate(case['threads'])):
            if len(fin[0].split()) - 1 != added - removed_ok:
                problems.append('final list has %d callbacks but %d were added and %d removals succeeded' % (len(fin[0].split()) - 1, added, removed_ok))
    # one traversal = the call/visit lines of one thread between two of its done lines: no id twice
    cur = {}
    for l in trace:
        ws = l.split()
        if ws[0] in ('call', 'visit'):
            seen = cur.setdefault(ws[1], [])
            if ws[2] in seen:
                problems.append('callback %s visited twice by one traversal of %s' % (ws[2], ws[1]))
            seen.append(ws[2])
        elif ws[0] in ('done', 'res'):
            cur[ws[1]] = []
    return problems
