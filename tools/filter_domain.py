"""filter_domain.py — case generator, serialiser, shrinker and correspondence loop for programs over
MixinFilter / canContinueInvoking dispatchers (domain `filter`: coq/FilterModel.v,
harness/filter.cpp, ocaml/driver_filter.ml).

case = dict(cbs={(c,n): (verdict 0|1, rewrite value or None, [cmd])}, main=[cmd], wrap=[(kind, params, values)])

flavours:  gate    direct and queued dispatches mixed with filter / listener changes, filters that
                   block, rewrite, re-enter (nested dispatch, process, add/remove filters and listeners)
           direct  the same without the queue (the only flavour the heterogeneous dispatcher can run)
           queued  mostly enqueue / process / processone
           wrap    conditionalFunctor / argumentAdapter value tables
"""
import os

import vlib

NK = 3       # event keys
NCB = 8      # callback ids 1..NCB
DRIVER = os.path.join(vlib.DRIVERS, 'driver_filter')

# harness variants: compile definitions, arguments of the model driver (mode is replaced by `spec` when a
# proof obligation is broken), whether only queue-free cases can run
VARIANTS = {
    'q_ref': dict(defs=['VF_PROTO=0', 'VF_MIX2=0'], model=('mech', 'ref', '0', '1'), direct_only=False),
    'q_val_mix2': dict(defs=['VF_PROTO=1', 'VF_MIX2=1'], model=('mech', 'val', '1', '1'), direct_only=False),
    'q_ref_mix2': dict(defs=['VF_PROTO=0', 'VF_MIX2=1'], model=('mech', 'ref', '1', '1'), direct_only=False),
    'q_val': dict(defs=['VF_PROTO=1', 'VF_MIX2=0'], model=('mech', 'val', '0', '1'), direct_only=False),
    'heter_ref': dict(defs=['VF_HETER=1'], model=('heter', 'ref', '0', '0'), direct_only=True),
}
QUEUE_OPS = ('enqueue', 'process', 'processone')


def run_model(margs, text, timeout=600):
    rc, out, err = vlib.sh([DRIVER] + list(margs), input=text, timeout=timeout)
    if rc != 0:
        raise RuntimeError('model driver failed (%s): %s' % (' '.join(margs), err[-500:]))
    return vlib.parse_traces(out)[0]


def cmds_text(cmds):
    return ' ; '.join(' '.join(x) for x in cmds)


def case_text(cid, case):
    out = ['case %s' % cid]
    if case.get('fuel'):
        out.append('fuel %d' % case['fuel'])
    for (c, n) in sorted(case['cbs']):
        v, rw, body = case['cbs'][(c, n)]
        out.append('cb %d %d %d %s : %s' % (c, n, v, '-' if rw is None else str(rw), cmds_text(body)))
    if case['main']:
        out.append('main : ' + cmds_text(case['main']))
    for kind, params, vals in case.get('wrap', []):
        out.append('%s%s : %s' % (kind, ''.join(' %d' % p for p in params), ' '.join(str(v) for v in vals)))
    out.append('end')
    return '\n'.join(out) + '\n'


def split_cmds(ws):
    out, cur = [], []
    for w in ws:
        if w == ';':
            if cur:
                out.append(cur)
            cur = []
        else:
            cur.append(w)
    if cur:
        out.append(cur)
    return out


def parse_case_text(text):
    cases, cur = [], None
    for line in text.splitlines():
        ws = line.split()
        if not ws or ws[0] == '#':
            continue
        if ws[0] == 'case':
            cur = {'cbs': {}, 'main': [], 'wrap': []}
            cases.append(cur)
        elif cur is None:
            continue
        elif ws[0] == 'fuel':
            cur['fuel'] = int(ws[1])
        elif ws[0] == 'cb':
            cur['cbs'][(int(ws[1]), int(ws[2]))] = (int(ws[3]), None if ws[4] == '-' else int(ws[4]), split_cmds(ws[6:]))
        elif ws[0] == 'main':
            cur['main'] = split_cmds(ws[2:])
        elif ws[0] == 'cf':
            cur['wrap'].append(('cf', [int(ws[1]), int(ws[2])], [int(x) for x in ws[4:]]))
        elif ws[0] in ('adc', 'adb', 'ads'):
            cur['wrap'].append((ws[0], [], [int(x) for x in ws[2:]]))
    return cases


def uses_queue(case):
    for body in [case['main']] + [b for (_, _, b) in case['cbs'].values()]:
        for c in body:
            if c[0] in QUEUE_OPS:
                return True
    return False


class Gen:
    def __init__(self, rng, flavour):
        self.r = rng
        self.fl = flavour
        self.stats = {}
        self.nreg = [0] * NK
        self.nfreg = 0

    def stat(self, k):
        self.stats[k] = self.stats.get(k, 0) + 1

    def key(self):
        return self.r.below(2) if self.r.chance(75) else self.r.below(NK)

    def value(self):
        r = self.r
        kind = r.weighted([('any', 55), ('m7', 15), ('m5', 12), ('m35', 6), ('small', 12)])
        if kind == 'm7':
            return 7 * r.range(1, 9)
        if kind == 'm5':
            return 5 * r.range(1, 9)
        if kind == 'm35':
            return 35 * r.range(1, 3)
        if kind == 'small':
            return r.range(0, 6)
        return r.range(1, 99)

    def hreg(self, k, new=False):
        if new:
            j = self.nreg[k]
            self.nreg[k] = min(j + 1, 40)
            return k * 100 + j
        n = self.nreg[k]
        if n == 0 or self.r.chance(8):
            return k * 100 + 90 + self.r.below(2)
        return k * 100 + self.r.below(n)

    def freg(self, new=False):
        if new:
            j = self.nfreg
            self.nfreg = min(j + 1, 40)
            return j
        if self.nfreg == 0 or self.r.chance(8):
            return 90 + self.r.below(2)
        return self.r.below(self.nfreg)

    def cmd(self, depth):
        r = self.r
        w = [('dispatch', 30), ('addfilter', 9), ('removefilter', 7), ('append', 9), ('prepend', 3), ('remove', 5)]
        if self.fl != 'direct':
            w += [('enqueue', 14), ('process', 7), ('processone', 5)]
        if self.fl == 'queued':
            w += [('enqueue', 20), ('process', 8), ('processone', 8)]
        if depth > 0:
            w = [(k, (v if k in ('enqueue', 'removefilter', 'remove', 'addfilter', 'append') else max(1, v // 2))) for k, v in w]
        kind = r.weighted(w)
        self.stat(('body_' if depth else 'main_') + kind)
        k = self.key()
        if kind == 'addfilter':
            return ['addfilter', str(r.range(1, NCB)), str(self.freg(new=(depth == 0 or r.chance(50))))]
        if kind == 'removefilter':
            return ['removefilter', str(self.freg())]
        if kind in ('append', 'prepend'):
            return [kind, str(k), str(r.range(1, NCB)), str(self.hreg(k, new=(depth == 0 or r.chance(50))))]
        if kind == 'remove':
            return ['remove', str(k), str(self.hreg(k))]
        if kind in ('dispatch', 'enqueue'):
            return [kind, str(k), str(self.value())]
        return [kind]

    def gen_wrap(self):
        r = self.r
        case = {'cbs': {}, 'main': [], 'wrap': []}
        for _ in range(r.range(1, 3)):
            m = r.range(1, 9)
            case['wrap'].append(('cf', [m, r.below(m)], [r.range(0, 200) for _ in range(r.range(1, 12))]))
        case['wrap'].append(('adc', [], [r.pick([r.range(0, 255), r.range(256, 70000), 255, 256, 511, 65535, 65536]) for _ in range(2 * r.range(1, 6))]))
        case['wrap'].append(('adb', [], [r.range(0, 100000) for _ in range(2 * r.range(1, 6))]))
        # a movable class type passed by non-const lvalue reference, adapted to by-value listeners: every listener
        # and the caller must still see the dispatched value
        case['wrap'].append(('ads', [], [r.range(0, 100000) for _ in range(2 * r.range(1, 5))]))
        self.stat('wrap_case')
        return case

    def gen(self):
        r = self.r
        if self.fl == 'wrap':
            return self.gen_wrap()
        case = {'cbs': {}, 'main': [], 'wrap': []}
        for _ in range(r.weighted([(0, 8), (1, 22), (2, 30), (3, 20), (4, 12), (5, 8)])):
            case['main'].append(['addfilter', str(r.range(1, NCB)), str(self.freg(new=True))])
        for _ in range(r.range(1, 5)):
            k = self.key()
            case['main'].append(['append', str(k), str(r.range(1, NCB)), str(self.hreg(k, new=True))])
        for _ in range(r.range(5, 28)):
            case['main'].append(self.cmd(0))
        if self.fl != 'direct':
            case['main'].append(['process'])
        nested = r.chance(60)
        for c in range(1, NCB + 1):
            if r.chance(70):
                for n in range(1, r.range(1, 4) + 1):
                    if r.chance(75):
                        body = [self.cmd(1) for _ in range(r.range(1, 3))] if (nested and r.chance(45)) else []
                        case['cbs'][(c, n)] = (0 if r.chance(28) else 1, self.value() if r.chance(45) else None, body)
        return case


def nontrivial(case, trace):
    if case.get('wrap') and not case['main']:
        return sum(1 for l in trace if l.startswith(('cfrun', 'adrun', 'adbrun', 'adsrun'))) >= 2
    return (sum(1 for l in trace if l.startswith('filter')) >= 1 and sum(1 for l in trace if l.startswith('call')) >= 1)


def features(case, trace):
    f = set()
    if any(b for (_, _, b) in case['cbs'].values()):
        f.add('reentrant_bodies')
    if uses_queue(case):
        f.add('queue')
    if case.get('wrap'):
        f.add('wrappers')
    infilter = 0
    for l in trace:
        ws = l.split()
        if ws[0] == 'verdict':
            infilter -= 1
            if ws[2] == '0':
                f.add('filter_blocked')
            f.add('filter_ran')
        elif ws[0] == 'filter':
            if infilter > 0:
                f.add('nested_dispatch_inside_filter')
            infilter += 1
        elif ws[0] == 'cci' and ws[2] == '0':
            f.add('policy_stopped')
        elif ws[0] == 'mixin' and ws[2] == '0':
            f.add('second_mixin_vetoed')
        elif ws[0] == 'mixin':
            f.add('second_mixin_passed')
        elif ws[0] == 'call':
            f.add('listener_ran')
            if infilter > 0:
                f.add('listener_inside_filter')
        elif ws[0] == 'cfskip':
            f.add('conditional_skipped')
        elif ws[0] == 'cfrun':
            f.add('conditional_ran')
    for (c, n), (v, rw, body) in case['cbs'].items():
        if rw is not None:
            f.add('rewrites')
        for cmd in body:
            f.add('body_' + cmd[0])
    return f


def shrink(case, still_fails, max_tests=260):
    tests = [0]

    def ok(c):
        tests[0] += 1
        if tests[0] > max_tests:
            return False
        try:
            return still_fails(c)
        except Exception:
            return False
    cur = {'cbs': dict(case['cbs']), 'main': list(case['main']), 'wrap': list(case.get('wrap', []))}
    changed = True
    while changed and tests[0] <= max_tests:
        changed = False
        size = max(1, len(cur['main']) // 2)
        while size >= 1:
            i = 0
            while i < len(cur['main']):
                cand = dict(cur)
                cand['main'] = cur['main'][:i] + cur['main'][i + size:]
                if (cand['main'] or cand['wrap']) and ok(cand):
                    cur = cand
                    changed = True
                else:
                    i += size
            size //= 2
        for i in range(len(cur['wrap']) - 1, -1, -1):
            cand = dict(cur)
            cand['wrap'] = cur['wrap'][:i] + cur['wrap'][i + 1:]
            if (cand['main'] or cand['wrap']) and ok(cand):
                cur = cand
                changed = True
        for i in range(len(cur['wrap'])):
            kind, params, vals = cur['wrap'][i]
            step = 1 if kind == 'cf' else 2
            j = 0
            while j < len(vals) and len(vals) > step:
                cand = dict(cur)
                cand['wrap'] = list(cur['wrap'])
                nv = vals[:j] + vals[j + step:]
                cand['wrap'][i] = (kind, params, nv)
                if ok(cand):
                    cur = cand
                    vals = nv
                    changed = True
                else:
                    j += step
        for key in sorted(cur['cbs']):
            cand = dict(cur)
            cand['cbs'] = {k: v for k, v in cur['cbs'].items() if k != key}
            if ok(cand):
                cur = cand
                changed = True
                continue
            v, rw, body = cur['cbs'][key]
            for nb in ([], body[:1], body[1:]):
                if len(nb) < len(body):
                    cand = dict(cur)
                    cand['cbs'] = dict(cur['cbs'])
                    cand['cbs'][key] = (v, rw, nb)
                    if ok(cand):
                        cur = cand
                        v, rw, body = cand['cbs'][key]
                        changed = True
            if rw is not None:
                cand = dict(cur)
                cand['cbs'] = dict(cur['cbs'])
                cand['cbs'][key] = (v, None, body)
                if ok(cand):
                    cur = cand
                    changed = True
            if v == 0:
                cand = dict(cur)
                cand['cbs'] = dict(cur['cbs'])
                cand['cbs'][key] = (1, cur['cbs'][key][1], cur['cbs'][key][2])
                if ok(cand):
                    cur = cand
                    changed = True
    return cur


def model_args(vname, oracle):
    m = list(VARIANTS[vname]['model'])
    if oracle == 'spec':
        m[0] = 'spec'
    return m


def correspond(ctx, vname, binary, cases, oracle='mech', what='filtered dispatch', max_reports=2):
    """runs every case the variant can run on the model (mode per variant) and on the harness; reports
    disagreements (shrunk) through ctx.violation.  returns (stats, model traces, texts, usable ids)"""
    margs = model_args(vname, oracle)
    direct_only = VARIANTS[vname]['direct_only']
    ids = [str(i) for i in range(len(cases)) if not (direct_only and uses_queue(cases[i]))]
    texts = {i: case_text(i, cases[int(i)]) for i in ids}
    model = run_model(margs, ''.join(texts[i] for i in ids)) if ids else {}
    usable = [i for i in ids if 'error' not in model.get(i, ['error'])]
    stats = {'generated': len(cases), 'runnable': len(ids), 'model_error_discarded': len(ids) - len(usable), 'compared': 0, 'disagreements': 0}
    feats, distinct = {}, set()
    for i in usable:
        if nontrivial(cases[int(i)], model[i]):
            distinct.add(texts[i].split('\n', 1)[1])
        for f in features(cases[int(i)], model[i]):
            feats[f] = feats.get(f, 0) + 1
    stats['distinct_nontrivial'] = len(distinct)
    stats['features'] = feats
    reported = 0
    impl = vlib.run_impl(binary, texts, usable)
    if '__exit__' in impl:
        ctx.violation(''.join(texts[i] for i in usable[:50]), '%s: harness %s: %s at process exit' % (what, vname, impl['__exit__'][0]), key='exit-leak')
        reported += 1
    for i in usable:
        stats['compared'] += 1
        a = model[i]
        b = impl.get(i, ['<missing>'])
        if a == b:
            continue
        stats['disagreements'] += 1
        if reported >= max_reports:
            continue
        reported += 1

        def still(c):
            if direct_only and uses_queue(c):
                return False
            t = case_text('0', c)
            m = run_model(margs, t).get('0', ['error'])
            if 'error' in m:
                return False
            im = vlib.run_impl(binary, {'0': t}, ['0'], timeout=60).get('0', ['<missing>'])
            return m != im
        small = shrink(cases[int(i)], still)
        t = case_text('0', small)
        m = run_model(margs, t).get('0', [])
        sp = run_model(model_args(vname, 'spec'), t).get('0', [])
        im = vlib.run_impl(binary, {'0': t}, ['0'], timeout=60).get('0', [])
        d = vlib.first_diff(m, im)
        replay = t + '# harness: %s\n# model(%s): %s\n# spec    : %s\n# impl    : %s\n' % (vname, ' '.join(margs), ' | '.join(m), ' | '.join(sp), ' | '.join(im))
        ctx.violation(replay, '%s: implementation (%s) differs from the %s at trace line %s: expected `%s`, implementation `%s`'
                      % (what, vname, 'proved model' if oracle == 'mech' else 'specification (oracle; a proof obligation is broken)',
                         d[0] if d else '?', d[1] if d else '?', d[2] if d else '?'))
    return stats, model, texts, usable


def replay_file(ctx, path, binaries):
    text = open(path).read()
    cases = parse_case_text(text)
    only = None
    for line in text.splitlines():
        if line.startswith('# harness:'):
            only = line.split(':', 1)[1].strip()
    bad = 0
    for k, case in enumerate(cases):
        t = case_text(str(k), case)
        for vname, binary in binaries.items():
            if only and vname != only and only in binaries:
                continue
            if VARIANTS[vname]['direct_only'] and uses_queue(case):
                continue
            m = run_model(model_args(vname, 'mech'), t).get(str(k), ['error'])
            sp = run_model(model_args(vname, 'spec'), t).get(str(k), ['error'])
            im = vlib.run_impl(binary, {str(k): t}, [str(k)], timeout=120).get(str(k), ['<missing>'])
            print('model %s: %s' % (vname, ' | '.join(m)))
            print('spec  %s: %s' % (vname, ' | '.join(sp)))
            print('impl  %s: %s' % (vname, ' | '.join(im)))
            if 'error' not in sp and sp != im:
                bad += 1
    return bad
