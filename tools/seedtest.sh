#!/bin/bash
# seedtest.sh <seed dir with patch.diff demo.cpp meta.json> <name> <check ids...>
# 1. confirms the seeded change in a fresh scratch worktree: unit suite passes with the patch,
#    demo fails with the patch and passes without it;
# 2. applies the patch to /repo, runs the given checks (quick), restores /repo;
# 3. stores the seed under /verif/seeded/<name>/ with the outcome.
set -u
SRC=$1; NAME=$2; shift 2
OUT=/verif/seeded/$NAME
mkdir -p "$OUT"
cp "$SRC/patch.diff" "$OUT/patch.diff"
[ -f "$SRC/demo.cpp" ] && cp "$SRC/demo.cpp" "$OUT/demo.cpp"
[ -f "$SRC/meta.json" ] && cp "$SRC/meta.json" "$OUT/agent_meta.json"
WT=/tmp/seedverify_$$
rm -rf "$WT"; git -C /repo worktree add -q "$WT" HEAD || exit 2
trap 'git -C /repo worktree remove --force "$WT" 2>/dev/null' EXIT
SAN=""
grep -q "fsanitize" "$SRC/meta.json" "$SRC/demo.cpp" 2>/dev/null && SAN="-fsanitize=address,undefined"
# demo on the unpatched tree
g++ -std=c++17 -O1 -g -pthread $SAN -I"$WT/include" "$OUT/demo.cpp" -o "$WT/demo_clean" 2>"$WT/demo_clean.err"
( cd "$WT" && timeout 120 ./demo_clean >"$WT/demo_clean.out" 2>&1 ); RC_CLEAN=$?
if ! git -C "$WT" apply "$OUT/patch.diff"; then echo "SEED $NAME: patch does not apply"; exit 2; fi
g++ -std=c++17 -O1 -g -pthread $SAN -I"$WT/include" "$OUT/demo.cpp" -o "$WT/demo_patched" 2>"$WT/demo_patched.err"
( cd "$WT" && timeout 120 ./demo_patched >"$WT/demo_patched.out" 2>&1 ); RC_PATCHED=$?
SUITE=$(bash /verif/tools/run_baseline.sh "$WT" 2>&1 | grep -v "^[[:space:]]*$" | tail -1)
echo "SEED $NAME: demo clean rc=$RC_CLEAN ($(tail -1 "$WT/demo_clean.out" | cut -c1-60)) | demo patched rc=$RC_PATCHED ($(tail -1 "$WT/demo_patched.out" | cut -c1-60)) | suite: $SUITE"
# run the checks against the patched scratch worktree (VERIF_REPO: same effect as applying the patch to /repo and
# undoing it afterwards, without disturbing other work that builds from /repo meanwhile)
RES=""
for id in "$@"; do
  OUTF="$OUT/check_$id.log"
  ( cd /verif && VERIF_REPO="$WT" timeout 1500 python3 tools/check.py "$id" quick > "$OUTF" 2>&1 ); rc=$?
  V=$(grep -c "^VIOLATION" "$OUTF")
  RES="$RES $id:rc=$rc,violations=$V"
  grep "^VIOLATION\|^# " "$OUTF" | head -4
done
echo "SEED $NAME: checks:$RES"
python3 - "$OUT" "$NAME" "$RC_CLEAN" "$RC_PATCHED" "$SUITE" "$RES" <<'EOF'
import json, sys, os
out, name, rc_clean, rc_patched, suite, res = sys.argv[1:7]
meta = {}
try:
    meta = json.load(open(os.path.join(out, 'agent_meta.json')))
except Exception:
    pass
json.dump({'name': name, 'property': meta.get('property'), 'summary': meta.get('summary'), 'needs': meta.get('needs'),
           'confirmed': {'demo_unpatched_rc': int(rc_clean), 'demo_patched_rc': int(rc_patched), 'unit_suite_with_patch': suite},
           'checks_run': res.split(), 'ran': 'tools/seedtest.sh: fresh scratch worktree of /repo HEAD; unit suite and demo there; checks run with VERIF_REPO pointing at the patched worktree; worktree removed'},
          open(os.path.join(out, 'meta.json'), 'w'), indent=1)
EOF
# restore the generated leaves and the evidence files to those of the unpatched tree
# the private build areas of the experiments are not kept
python3 -c "import hashlib,shutil,sys; shutil.rmtree('/verif/build/exp_'+hashlib.sha256(sys.argv[1].encode()).hexdigest()[:10], ignore_errors=True)" "$WT"
